#!/usr/bin/env python3
"""Regenerates DESIGN.md: the hand-written parts below plus, per property, the bounds / assumptions / outside-claim lists taken
from the check modules themselves (so that the document cannot drift from what the checks report in their evidence)."""
import glob
import importlib
import json
import os
import sys
sys.path.insert(0, '/verif')
os.environ.setdefault('PYTHONHASHSEED', '0')

HEAD = r'''# DESIGN — solver-based checking of the real tapescript code

Target: k98kurz/tapescript at the pinned commit in `/repo` (pure Python 3.12; PyNaCl/libsodium, hashlib, `math.log2`, `struct`,
the clock and the RNG are the only things that are not Python). Properties: `/verif/properties.jsonl`, C01–C20, given and fixed.
Technique family (given): every property is decided by symbolic reasoning over the *real* source. Inputs become solver variables,
the property becomes an assertion, and z3 either shows that the assertion holds for every value inside stated bounds or returns a
concrete counterexample, which is replayed on the unmodified package in CPython before it is reported.

All 20 properties are claimed (`MANIFEST.json`, `not_applicable` is empty); what each claim leaves out is listed per property in
section 5 and repeated in every evidence file. This document describes what was **built**; where that deviates from the plan
written before the build, section 2.1 says so.

---------------------------------------------------------------------------------------------------

## 1. Why this reaches what the test-suite cannot

The 267 tests are examples: one or two keys, flags 0/1/2, `t = now ± 120`, some forty golden compiler vectors, trees of 1,2,3,4,7,20
leaves. Every property here is a for-all — over flag bytes, operand values, integers of any size, timestamps, cache contents,
programs, histories. A solver query over the real function body covers the whole space inside a bound at once. Three measured
examples (numbers from the committed evidence, quick tier, 16 cores):

* `OP_CHECK_SIG` / `OP_GET_MESSAGE` / `OP_SIGN`: all 256 flag bytes × all 256 allowed operands × all 256 presence patterns of
  `sigfield1..8` with symbolic contents, keys and signatures: 37 847 paths, 310 543 obligations, 24 s. A seeded one-bit mask slip
  (`0b1000000` for `0b10000000`) is reported with a real key and signature. The tests use three flag values.
* `int_to_bytes` / `bytes_to_int` and the integer instructions: round trip, sign bit and exact arithmetic for **every** integer
  of up to 24 bytes (160 thorough), including every value next to every power of two — which is where the float `log2` inside
  the encoder matters: a seeded change that compares the float `log2` with an integer is reported at
  `n = -664613997892457936451903530140172289` (= -(2^119+1)); no test comes near.
* `OP_CHECK_TIMESTAMP` / `OP_CHECK_EPOCH` and the three lock builders: exact truth table for unbounded integers `t`, `now`,
  threshold and every constraint encoding of 1..9 bytes in 6 s; both `>=`→`>` slips and a truthiness slip on a negative threshold
  are reported at the one second where they matter.

The same machinery found 14 genuine defects on the pinned tree that the tests do not see (section 6); 13 are repaired in `/repo`
by small `fix:` commits, one is recorded as a known finding.

---------------------------------------------------------------------------------------------------

## 2. The engine: SX

### 2.1 What it is, and the deviation from the plan

The plan was an interpreter over the `ast` of the real modules. What was built keeps the essential point — *the real source of the
working tree is what runs* — but executes it natively in CPython on z3-backed proxy values, which turned out to be far less code
to get right than a Python interpreter and removes the risk of mis-implementing Python semantics (exceptions, `match`, closures,
dataclasses, default arguments, `for` over a live list …): CPython itself provides them.

On every run, `sx/loader.py`

1. reads `/repo/tapescript/{errors,interfaces,classes,functions,parsing,tools,AMHL}.py` from the **working tree** and compiles
   them into a private package (`sxtsN`), so an edited source is what gets checked; the SHA-256 of every source file is written
   into the evidence;
2. applies a light AST rewrite that never changes meaning on concrete values: `a in b` → `__sx_in__(a, b)`, `sep.join(x)` →
   `__sx_join__`, dict displays inside functions → `__sx_dict__` (so that symbolic keys work), and *non-forking merges* of pure
   `a and b` / `a or b`, `x if c else y`, and `if T: sert(C)` (the shape of the sixteen independent `if`s of `OP_CHECK_SIG`);
3. injects builtins (`int, bytes, bytearray, str, dict, set, bool, float, type, len, range, isinstance …`) that accept both real
   values and proxies, and installs the environment stubs of section 3 in the module globals (`time`, `token_bytes`, `log2`,
   `floor`, `ceil`, `sha256`, `sha512`, `shake_256`, `SigningKey`, `VerifyKey`, `nacl.bindings`, `struct`, `deque`).

**Exploration is by decision replay.** A proxy `SymBool.__bool__` asks the engine which way to go. The engine keeps the trace of
decisions of the current run; a *choice* is a decision whose both sides are satisfiable under the path condition (two solver
checks on an incremental solver), a *forced* decision has one feasible side. After a run ends, every choice point of the trace
spawns the prefix with that choice flipped; the harness function is re-executed from the start following the prefix, and explores
on. This is exhaustive depth-first search over all feasible paths; a hash of the condition term at each replayed decision detects
nondeterminism of the code under test (→ harness error). There is no path merging besides the syntactic merges above, so the
cost is the number of feasible paths — the per-property harnesses are cut so that this number stays between 10^2 and 10^5.
Because the code under test contains `except BaseException` (`run_auth_scripts`, `OP_TRY_EXCEPT`), engine-internal aborts
(unsupported operation, bound exceeded) set a sticky *poison* flag on the path instead of relying on exception propagation; a
poisoned path is a harness error, never a pass.

**Obligations.** `c.check(name, cond)` collects conditions during the path; at the end of the path the conjunction is decided by
one `unsat` query on the path condition (individual queries only if that fails). `sat` → model → concrete inputs → replay
(section 2.4). `unknown` is never a pass: a harness may offer candidate inputs that are replayed on the real code (a reproduced
violation is reported, exit 1); otherwise the run is inconclusive (exit 2).

**Time limits.** Every query has a wall-clock limit (20 s; 5 s for the opportunistic value-merging queries of the algebra model).
A proof obligation that times out is repeated once with six times the limit before it counts as `unknown`. A branch-feasibility
or merging query that times out is treated as "feasible" / "not merged" (an over-approximation: it can only add paths, and a
spurious path shows up as a non-reproducing counterexample, exit 2, never as a pass); it is repeated only when the process
demonstrably got less than 70 % of a core while it ran (CPU time against wall time — the limit is wall-clock and the checks run 16
jobs in parallel), so a loaded machine does not change verdicts and a genuine time-out is not paid twice.

### 2.2 Value model

* `int` → `SymInt` over a z3 `Int` (mathematical integers: Python ints do not wrap), with optional width / magnitude hints.
  Bit operations with constants use one canonical 8-bit decomposition per byte term (8 Bools, cached across paths — several
  decompositions of the same byte cost an order of magnitude in solver time). `int.from_bytes` is the linear sum of the byte
  terms, `int.to_bytes` introduces digit variables with one linear equation. `bit_length` and the `log2` stub locate the byte
  class by binary search (decisions) and the bit inside it by an 8-way disjunction (no fork).
* `bytes` → `SymBytes`: **concrete length, symbolic content** (a tuple of ints and byte terms). A symbolic length is a fork on
  the length inside a stated bound, except for results whose length is a symbolic argument of a stub (`token_bytes(n)`,
  `shake_256(..).digest(n)`, long digests): `SymSized`, an opaque value with a symbolic length, enough for the limit checks.
  `bytearray` → `SymByteArray` (mutable).
* `bool` → `SymBool`; `float` → `SymFloat` over z3 `FloatingPoint` (binary64 arithmetic, binary32 for `struct '!f'`), with a
  contract stub for `%` on floats (SMT-LIB has no `fmod`).
* `str` stays a **real Python `str`**. Symbolic bytes that flow into text (hex in f-strings, decimal numbers, UTF-8) are
  rendered as *placeholder characters* from a private-use Unicode block (`sx/strings.py`): one character per hex byte / per
  decimal number / per UTF-8 byte, numeric for decimal placeholders so that `.isnumeric()` holds. The real compiler then
  tokenises, slices, lower-cases and compares real strings; the placeholders are mapped back to the symbolic values in
  `bytes.fromhex`, `int()`, `bytes(s, 'utf-8')`. The assumption is that the code inspects operand payloads only through these
  conversions; every path that involves text is validated by a concrete witness replay (section 2.4), which is what would show a
  violation of that assumption.
* Containers: `SDict` (association list with symbolic keys and presence, read and write logs with the Python type of every
  key — C08 is an assertion over these logs), `SDeque` (the full `collections.deque` interface with concrete length, symbolic
  `maxlen`, and an event for the **silent drop** of a full `deque(maxlen)`), `SSet`, `LazyRange` (`range(n)` for symbolic `n`:
  one decision per iteration).
* Loops run under the solver; every loop bound is either derived from a concrete length or enforced by an explicit bound whose
  violation is a harness error (`BoundExceeded`), never a silent truncation.

### 2.3 Sound abstractions used by the invariant harnesses

The one-step harnesses for C07 / C08 / C20 / C01 ask about shapes (lengths, counts, keys, pointers), not values. For them
`core.ABSTRACT` replaces value computations by fresh values constrained only by what the invariant needs: non-linear products,
long digit strings, the group algebra (opaque mode), float arithmetic. Each is an over-approximation (more behaviours than the
real code), so a proof under it is a proof for the real code; a counterexample under it that does not reproduce is a harness
error. The equality-only harnesses (C04, C05, C13, C15, C17, C18) treat byte `xor` as an uninterpreted function with the lemma
`xor8(a,b) = 0 ⇔ a = b` — exact for deciding the constant-time comparison `bytes_are_same`, and two orders of magnitude cheaper
than bit-blasting 32-byte digests.

### 2.4 Keeping the engine honest

The engine is new code and the main trusted component. Every run validates it against CPython and the unmodified package:

* **Witness replay.** On a fixed fraction of the paths (every path … every ninth, per harness) a model of the path condition is
  turned into concrete inputs, the *real* package executes the same scenario, and the observables (raised or not, exception
  class, stack, pointer, listing, bytes …) must equal the symbolic ones evaluated in the model. A mismatch is a harness error.
  The count is reported as `traces_validated_against_impl`. This caught, during the build, several stub inaccuracies (libsodium
  raising `TypeError` vs `ValueError` for wrong lengths, the identity being an invalid point, `scalar_add` wrapping mod 2^256)
  and, after the build, a regression of mine (section 7, false alarms).
* **Counterexample replay before reporting.** Three mechanisms, by harness: (i) hand-written *realisations* where the model
  contains abstract facts (a validity matrix of the signature oracle becomes real keys and real signatures; a hash relation
  becomes recomputed digests; the neutral element becomes its real encoding); (ii) `auto_replay`: the harness function itself is
  run a second time on the **real package** with a concrete context that feeds the counterexample's inputs (harnesses written
  against `c.dict()`, `make_summary(c, …)` run unchanged on both); (iii) `pinned_replay` for harnesses whose reference exists only
  symbolically (C06): the harness is re-run on the instrumented package with every input pinned to the counterexample — the
  obligation must fail again — and the observables of that concrete run must equal those of the real package. A counterexample
  that does not reproduce is exit 2 and goes to `evidence/<id>.nonrepro.json`, never to a `VIOLATION` line, never to a pass.
* **Refinement of contract stubs.** `math.log2` is a contract, not a function (section 3). A model may pick a rounding the real
  libm does not; before replay, the true facts `log2(n_model) = <real value>` are added and the query is asked again until the
  model agrees with the real libm (at most 12 rounds, then inconclusive).
* **Witness replay through the replay functions.** Harnesses whose observables are abstract (group algebra, signature oracle,
  registries) hand a model of sampled *passing* paths to their replay function: the real package, run on those concrete inputs,
  must not show a violation either. These also count in `traces_validated_against_impl`.
* **Reachability markers.** Every check lists markers that must be reached (`MUST_REACH`: each outcome class, each interesting
  branch); a harness that reaches none of its assertions, or whose assumptions are unsatisfiable, fails the run (exit 2).
* `PYTHONHASHSEED=0` and deterministic job order make runs repeatable; the decision-hash check catches the rest.

What is *not* done, contrary to the plan: the cross-check of final queries with cvc5 / the old z3 binary. The queries are
produced through the z3 Python API on an incremental solver and were never the weak point; dumping and re-solving them was
dropped for time. Two sample queries per harness are kept in the evidence (`samples`, SMT-LIB2 head) for inspection. CrossHair,
tried first, confirmed leaf kernels in under a second but needs minutes for a 4-bit slice of `OP_CHECK_SIG` (per-path cost
~0.7 s against ~1 ms here) and realises the float `log2`; it is not part of the machinery.

---------------------------------------------------------------------------------------------------

## 3. Environment: stubs, their contracts, what they leave outside every claim

Every stub and assumption is part of the claim of each property that uses it and is repeated in its evidence (`assumptions`).

* **Clock** — `time()` returns one symbolic integer `now ≥ 0` per run. **Randomness** — `token_bytes(n)` returns `n` fresh
  symbolic bytes; the requested size is logged *before* the value is built (C07's allocation claim is an assertion over that log).
* **`math.log2`** — for a symbolic integer `n ≥ 1` the float result `r` is known through its contract: `k ≤ r ≤ k+1` for
  `2^k ≤ n < 2^(k+1)`, `r = k` exactly for `n = 2^k`, and below 2^40 `r` is an integer only for powers of two; above, `r` may be
  rounded up to `k+1` only for `n` within `2^(k-39)` of `2^(k+1)` (an ulp at `k+1 ≤ 1024` is at most 2^-42; the band leaves two
  bits for a libm that is off by an ulp) and may be the integer `k` only for `n` within the same distance above `2^k`. The stub
  yields `(floor r, r is an integer)`, from which `floor`, `ceil(r/8)`, comparisons with integers and division by constants are
  computed. Proofs hold for every rounding the contract allows, i.e. for any such libm. Counterexamples and witnesses are
  refined against the real one: for the power-of-two range of each argument of the model, the exact thresholds at which the real
  `math.log2` starts to round up / stops being the exact integer are found by bisection on the real function (monotone), and
  the complete behaviour on that range is added as a fact; one round per range suffices. `log2_contract_samples` (C10) evaluates
  the real function at `2^k + d` against the contract.
* **Hashes** — `sha256`, `sha512`, `shake_256(x).digest(n)` are uninterpreted functions of (algorithm, length, content, output
  length): equal inputs, equal digests. Collision freedom is assumed only where a property talks about "a different script / key"
  (stated per check). SHA-2 itself is outside every claim.
* **Ed25519, signature oracle** (C02, C03, C13, C14, C15, C05 key path) — `VerifyKey(k).verify(m, s)` is an uninterpreted
  predicate `valid(k, m, s)`; `SigningKey(seed).sign(m)` returns fresh bytes `s` with `valid(pub(seed), m, s)`. What is verified is
  the Python around the primitive: which key, which message bytes, which 64 bytes, which errors. Exactness claims have the form
  "the verdict equals `valid(lock key, covered message, supplied signature)`".
* **Ed25519, generic-group model** (C05 root, C17, C18, tweaked PTLC) — a point is `enc(d)` for its discrete log `d` mod `L`,
  `G = enc(1)`; scalar / point addition are `±` mod `L` with libsodium's 32-byte wrap, `scalar_mul` / `scalarmult` share one
  uninterpreted function; the identity decodes but is not a *valid* point; `clamp_scalar` runs from the real source. Values
  congruent mod `L` are merged canonically, so most identities become syntactic. Non-canonical encodings, small-order points and
  the cofactor are outside every claim.
* **`struct`** — network-order pack / unpack for the field kinds the package uses (`sx/structmodel.py`), float32 through the FP
  model.

---------------------------------------------------------------------------------------------------

## 4. Proof patterns

**P1 — one step from an arbitrary state.** For "at every step of every script" claims histories are not explored: the pre-state is
symbolic (stack shapes from a list, symbolic content, symbolic limits, symbolic tape operands, a cache with fixed and symbolic
keys), one instruction runs, the post-state must satisfy the invariant again. Histories of any length follow by induction. A
counterexample from a pre-state no history reaches means the invariant is too weak — it is strengthened, it is not a finding.

**P2 — body-outcome summaries.** `IF, IF_ELSE, TRY_EXCEPT, LOOP, CALL, EVAL, MERKLEVAL, TAPROOT` call `run_tape` on a sub-tape. In
a construct's harness the nested `run_tape` is replaced by a summary that records what it was handed (bytes, flags, plugins,
contracts, definitions, call count / limit, stack depth) and then behaves arbitrarily within a bound: pops or pushes an item,
writes a byte-keyed cache entry, executes a real flag instruction, returns, raises. The construct's own code is real. By
induction over nesting this covers every depth. Selective variants summarise only the evaluation of a designated script (the leaf
of a script tree, a committed / surrogate script) and let everything else run for real.

**P3 — relational check against a reference** written from `docs.md` / `language_spec.md` (never from the implementation) and
evaluated on the same symbolic state: reference message builder (C02), matching oracle (C03), reference encodings and block
assembler (C11), window predicates (C14–C16), instruction semantics (C06).

---------------------------------------------------------------------------------------------------

## 5. Per property

For each property: the harnesses (what runs, against what), then — copied from the check module, so identical to the evidence —
bounds per tier, assumptions, and what is outside the claim. Wall times are the committed quick-tier evidence (16 cores).
'''

NOTES = {
    'C01': 'Harnesses: `handoff` — the real `run_auth_scripts` / `run_script` with every script run summarised (P2): never raises, verdict exact, '
           'and the state handed to each script is clean (no return flag, pointer 0, shared stack / cache / definitions / call budget). '
           '`step_flag` — P1 over every opcode: `cache["returned"]` exists only with a terminated tape and only if a body returned; `OP_CALL` '
           'restores the position of the calling frame (the definition tape starts at a symbolic position: recursion). `e2e` — 13 witness '
           'programs × 7 lock templates and locks of 1..3 arbitrary bytes through real nested execution against a channel oracle.',
    'C02': 'Harnesses: `check_sig`, `get_message`, `sign_then_check`, `sign_stack`, `check_sig_stack`: the triple handed to the oracle, the '
           'error class and the stack result against a reference message builder, flag and allowed bytes as symbolic bits.',
    'C03': 'Harnesses: `multisig` — `OP_CHECK_MULTISIG(_VERIFY)` over the real `OP_CHECK_SIG`, n ≤ 4 keys (5 thorough), every m ≤ n, the whole '
           'validity matrix left to the solver; one query per path: true iff an injective assignment of signatures to valid keys exists. '
           '`lock` — `make_multisig_lock` emits pushes of the keys then `CHECK_MULTISIG flags m n`.',
    'C04': 'Harnesses: `step` (one `OP_MERKLEVAL`), `tree` (every binary shape), `builder` (prioritized / balanced), `graft` (a used tree '
           'grafted into a larger one), `pack`.',
    'C05': 'Harnesses: `root` (root = P + clamp(sha256(P‖sha256(S)))·G at integer level), `step` (`OP_TAPROOT` from an arbitrary witness state: '
           'script path and key path exact; the flagged key path also for single permission bits; the script path also with operand bytes that '
           'would be harmful as opcodes if the instruction did not consume its operand), `keyspend` / `scriptspend` builders, '
           '`nonnative` (native and non-native lock agree on verdict and evaluated scripts).',
    'C06': 'Harnesses: `step` (43 instructions against the reference in `checks/c06.py`), `float`, `control` (constructs with summarised '
           'bodies), `dispatch` (opcode byte → instruction numbered in `docs.md`). Two documentation inconsistencies were met and resolved '
           'by the property\'s rule "operand orders as pinned by the unit tests": `docs.md` says `OP_DIV_FLOATS` divides the second by the top, '
           'the unit test pins top / second; `docs.md` says `OP_RANDOM` takes its size from the tape, `language_spec.md` and the tests say stack.',
    'C07': 'Harness: `step` — P1 over all 92 opcodes + NOP codes with symbolic limits: stack and item limits, no silent drop of the deque, '
           'pointer monotone and inside the tape, call depth (nested bodies carry the spent budget; CALL / EVAL spend one), LOOP iterations, '
           'error classes, and every allocation request ≤ 255·max_item_size before it happens. The UTF-8 instructions also run on arbitrary '
           'bytes (multi-byte sequences decoded under the solver).',
    'C08': 'Harness: `step` — P1 over all opcodes with the recording cache: only byte-string keys are written (plus the control flag by control '
           'instructions), every embedder entry is the same object afterwards, no new string keys, only documented readers read string keys; a '
           'mutable (`bytearray`) embedder value is never altered, never handed to the script by reference, and every stack item is immutable '
           '`bytes` (the invariant that makes the one-step argument inductive); for the readers of string keys also with the sigfields '
           'themselves supplied as `bytearray`s.',
    'C09': 'Harnesses: `construct` — per construct, from a parent under an arbitrary embedder configuration with spent call budget, optionally '
           'after a parent-level flag instruction; summarised bodies may execute real flag instructions: flags at body entry equal the flags '
           'in force at that moment (and the previous iteration\'s exit flags for LOOP), plugins / contracts / limit / count carried. '
           '`plugin_once`, `flag_op` (symbolic operand: exactly the named integer flag changes), `e2e` probes at depth ≤ 2 (3 thorough). '
           'Deliberately *not* asserted: that a flag instruction executed inside an IF / TRY body outlives the body (the sub-tape owns a copy; '
           'the property does not specify scoping of flag instructions, only that entering a scope changes nothing).',
    'C10': 'Harnesses: `encode`, `decode`, `decode_empty`, `uint`, `arith`, `arith_tape` on unbounded z3 integers, lengths per tier; '
           '`log2_contract_samples` evaluates the real `math.log2` at 2^k + d to validate the stub\'s contract (this part is sampling and is '
           'labelled as such in the evidence).',
    'C11': 'Harnesses: `operand` (every instruction × operand kind, inside `true <stmt> false` so that swallowed neighbours show), `block` '
           '(abstract programs against a reference block assembler, statements concatenated around every construct), `spelling`, `sugar` '
           '(variables, macros, comptime).',
    'C12': 'Harnesses: `arbitrary` (all byte strings of length ≤ 2 / 3), `header` (every size-carrying opcode followed by 5–6 bytes from an edge '
           'set, so that every length field sees values on both sides of 2^7 / 2^15 / 2^16), `roundtrip` (per opcode with symbolic operands). '
           'A monitor on `Tape.read` turns a negative read size into an obligation ("never reads backwards").',
    'C13': 'Harnesses: `complete` (builder witness unlocks builder lock iff the flag is permitted), `exact_single`, `exact_scripthash`, '
           '`exact_graftroot` (locks from arbitrary witness states; flagged shapes against every single permission bit), `multisig_lock`, '
           '`multisig_builder`.',
    'C14': 'Harnesses: `certificate`, `lock` (single delegation lock), `chain` (reference fold over certificates), `builders`.',
    'C15': 'Harnesses: `htlc_exact` (both layouts, both hashes), `ptlc_exact`, `builders` (SHAKE digests of 1, 15, 16, 20, 32 bytes); the tweaked PTLC is under C17.',
    'C16': 'Harnesses: `check_timestamp`, `check_timestamp_errors`, `check_epoch`, `lock` (three builders end to end).',
    'C17': 'Harnesses: `public` (check / sa_altered / decrypt / check_sig / recover, one identity per job), `private`, `builders` (both builder variants, sigflags 00 and 01; prv and pub builders must agree), '
           '`tweak_validity` (a verdict / an adapter only for a valid tweak point), `ptlc_tweak`. The negative clauses "the adapter itself '
           'is not a valid signature" need hash independence beyond the generic-group model and were dropped from the claim (solver unknown); '
           'they are listed as outside.',
    'C18': 'Harnesses: `amhl` (AMHL class, n ≤ 4 / 6), `wrong_hop`, `tools` (`setup_amhl` + adapter cascade), `tools_noseed` (empty seed), `tools_refunds` (partial refund maps: every hop gets the locks for its own key), `sample` (the log of the hash stub shows that '
           '`AMHL.sample` hashes the whole seed and the index).',
    'C19': 'Harnesses: `onestep` (one registry operation from an arbitrary registry state), `history_plugins`, `history_contracts`, '
           '`independence` (compile / assemble / comptime / run results do not depend on an earlier call), `caller_dicts`. Plugins are plain '
           'functions, bound methods and value-equal callables.',
    'C20': 'Harnesses: `nop_step`, `nop_compile`, `nop_decompile`, `fork_step` (a soft-forked opcode against the NOP it replaces), '
           '`fork_compile`.',
}

TAIL_TOP = r'''
---------------------------------------------------------------------------------------------------

## 6. Findings on the pinned tree

Each was first reported by a check as a replayed violation on the unchanged tree, then examined: does the real code break the
property as stated (genuine defect) or is the check wrong (false alarm, section 7)? Genuine defects with a small, safe repair were
fixed in `/repo`, one `fix:` commit each, the 267 tests unedited and passing after each; they are recorded in
`known_findings.json` as `fixed:` entries, which suppress nothing — reverting a fix makes the check report the violation again
(verified for F1, F2, F8, F11, F12).

| id | property | what failed | repair |
|----|----------|-------------|--------|
'''

TAIL_MID = r'''
**Known finding (not repaired): F5 / C16.** `make_timestamp_before_lock(ts)` compiles to `push ts check_timestamp not`. Because
`check_timestamp` is also false when `t` is ahead of the verifier clock by `ts_threshold` or more, the negation accepts such `t`
even when `t ≥ ts` (e.g. ts = 129, now = 69, t = 129 → `run_auth_scripts` True). A repair changes the lock's byte layout, which
the unit tests pin, so it is listed in `known_findings.json` (matched by harness `lock`, obligation
`before_exact_beyond_slack`); the check prints `KNOWN-FINDING: property=C16 …` and exits 0, and any other C16 violation is still
reported.

Observed and *not* reported as findings: `OP_CHECK_TEMPLATE` reads flag 10 with `.get(10, True)` (after the F11 repair an unset
flag 10 is `False`, so the two readings agree); `OP_SUBTRACT_INTS` / `OP_MULT_INTS` / `OP_SUBTRACT_FLOATS` with a count of 0 take
one item (undefined by the documentation, excluded from C06); the two documentation inconsistencies under C06 above.

---------------------------------------------------------------------------------------------------

## 7. False alarms and harness errors met on the way, and what was done

* **Summary / harness writes in the cache log** (C08, C02): writes made by the harness while building the pre-state were counted
  as writes of the instruction → logs are reset after set-up.
* **OP_RANDOM between implementation and oracle run** (C01 e2e): the two runs drew different random streams → the stub's stream
  is reset before the oracle run. The concrete side had the same gap and showed it only in the thorough tier (3-byte locks such as
  `SIZE RANDOM CHECK_TIMESTAMP`, whose verdict depends on the random byte: six witness mismatches, exit 2): the witness and the
  counterexample replay of C01 now pin `token_bytes` to the model's random stream (`common.pinned_random`), for the
  implementation run and the oracle run alike.
* **log2 rounding chosen by the model** (C10, C11): witnesses / counterexamples with a rounding the real libm does not produce →
  refinement against the real `math.log2` (section 2.4).
* **EVAL counted for CALL sub-tapes** (C05): the selective logger matched by call depth only → it matches the designated items.
* **Regression of mine**: adding the `xor` abstraction key made the generic step abstract *every* key, so `OP_XOR` witnesses
  disagreed with the real package (C07 / C08 exit 2 on the clean tree). Found by the witness replay itself when the first seeded
  changes were evaluated; the generic step now names the four abstractions it needs.
* **Spec too strict** (C06, first runs): empty items as integers, key-not-in-cache, index-beyond-stack and division by zero are
  errors; a LOOP whose body empties the stack fails on its condition; `OP_RETURN` moves the pointer to the end. The reference was
  corrected; none of these was reported as a finding. A `SymInt == z3 term` comparison in the check itself produced non-reproducing
  counterexamples (exit 2) and was fixed.
* **Minimal integer encodings demanded** (C06, first thorough run): the reference required the *minimal* signed encoding; for values just
  below 2^(8k-1) beyond 2^53 the encoder spends one extra sign byte (the float `log2` rounds up), which the documentation ("as signed
  int") and C10 allow. 13 replayed "violations" on 8-byte operands were this; the reference now states the documented bound
  (decodes to the value, at most one byte longer than minimal).
* **Short digests** (C15, after widening to SHAKE sizes below 16 bytes): the hash stub is collision free only for outputs of at least
  16 bytes, so for 1- and 15-byte digests the model found collisions the real function does not produce (exit 2). The references now
  compare commitments (what the lock can check) and "wrong preimage" is stated as "digest differs".
* **My misreading of `setup_amhl`** (C18): entry[3] is the hop's partial secret, not the key that opens the hop → the obligation
  now uses `AMHL.check_setup` on consecutive hops.
* Obligations that z3 answers `unknown` for and that could not be reformulated were **removed from the claim and listed as
  outside**, never kept as passes: the negative adapter clauses (C17), two decrypt-cascade equalities (C18, replaced by offset /
  provenance checks), the values of `INT_TO_FLOAT` / `FLOAT_TO_INT` (C06).

---------------------------------------------------------------------------------------------------

## 8. Seeded changes: which checks catch which

Fresh sub-agents were given only one property's text and a scratch worktree (nothing from `/verif`), and asked for a small,
realistic change that breaks the property while all 267 tests still pass and that needs something specific to manifest. Each change
was confirmed by me (tests, the agent's demonstration on both trees) and is kept under `seeded/<id>/` (`patch.diff`, `demo.py`,
`notes.md`, `meta.json`). None is committed to `/repo`. "first" is the result of the check as it stood when the change arrived;
where it missed, the check was strengthened (never specialised to the change: the added harnesses widen a bound or add an
obligation) and re-run. From the third batch on the changes were evaluated in their own worktrees (`VERIF_REPO=<worktree>
./check <ID>`, a development override the registered commands never set), so `/repo` stayed untouched while other checks ran.

@SUMMARY@

| seed | property | what the change needs to manifest | first | after strengthening |
|------|----------|-----------------------------------|-------|---------------------|
'''

TAIL_END = r'''
Lessons drawn from the misses, applied across checks: replays must be as general as the symbolic obligation (three exit-2
results were correct symbolic detections with too narrow a replay); invariant harnesses need *hostile* pre-states (spent call
budget, mutable embedder values, definitions in mid-run, used trees); environment models must cover the whole interface of what
they replace (`deque.extend`), because a realistic change may use any of it.

---------------------------------------------------------------------------------------------------

## 9. Interface

* `./setup.sh` creates `/verif/.venv` as an overlay on `/venv` and installs `z3-solver`, `cvc5`, `jsonschema` from the offline
  wheelhouse; `./check` runs it on first use. Nothing is fetched; nothing under `/tmp` is needed.
* `./check <ID> [--tier quick|thorough] [--replay file] [--procs N] [--only harness]` — one process per harness job, 16 in
  parallel. Exit 0: held on everything explored; exit 1 with `VIOLATION property=<id> replay=<path>` lines: a counterexample that
  reproduced on the real package and is not listed in `known_findings.json`; exit 2: harness error (unsupported construct, bound
  exceeded, solver unknown, non-reproducing counterexample, witness mismatch, unreached marker) — never a pass.
  `KNOWN-FINDING: property=<id> …` lines are printed for listed findings that were seen again.
* `evidence/<id>.json` is written by every run: tier, functions encoded, SHA-256 of the sources read, bounds, assumptions,
  outside-claim list, paths, obligations, obligations decided without the solver, witnesses replayed, solver name / checks / time /
  unknowns, reachability markers, sample queries.
* `known_findings.json` is committed and never written at run time. `MANIFEST.json` is generated by `mkmanifest.py` from
  `checks/registry.py`; this file by `mkdesign.py`.
* No hooks were needed in `/repo` (`MANIFEST.hooks`: add-only, guard `TAPESCRIPT_VERIF`, no source commits): the engine loads and
  instruments the sources itself. `/repo` carries only the `fix:` commits of section 6.
* Tiers: quick is the per-change check (whole suite ≈ 12 min sequentially on 16 cores); thorough widens the bounds listed per
  property (more items, longer operands, deeper nestings, longer histories, more shapes). Every thorough command was run end to
  end; where a first version did not finish, the bound was cut and the cut is stated in the bounds: C01 (3-byte locks starting with
  OP_COPY / hashes / signing instructions: two of 64 splits ran beyond 90 minutes), C04 (builders beyond 8 leaves), C17 (the full
  builder flows did not finish in 80 minutes; thorough keeps the lite flows for more flag values), C19 (registry histories of
  length 6 over a 12-operation alphabet; the longest histories are split by their first operation into one job each). Measured
  thorough wall times (several of them while other checks were running): C01 29 min, C02 3 min, C03 51 min, C04 12 min, C05 1 min,
  C06 13 min, C07 1 min, C08 1 min, C10 11 min, C12 20 min, C13 7 min, C15 6 min, C16 2 min, C17 3 min, C18 25 min, C19 17 min
  (1.0 million histories), C20 2 min, the others under a minute.
* Two late performance repairs of the machinery (no change of any verdict, path or obligation count): the hash stub returns the
  first application's output terms when the syntactically identical input is hashed again and relates only distinct applications
  pairwise (merkle builders hash one subtree many times: a 6-leaf builder job went from 54 s to 5 s); and the time-limit policy
  above (an unconditional six-fold retry had made the four genuinely undecided merging queries of C17 / C18 cost 140 s each).
'''


def md_escape(s):
    return str(s).replace('|', '\\|')


def main():
    props = [json.loads(l) for l in open('/verif/properties.jsonl')]
    out = [HEAD]
    for p in props:
        pid = p['id']
        mod = importlib.import_module('checks.' + pid.lower())
        ev = None
        try:
            ev = json.load(open(f'/verif/evidence/{pid}.json'))
        except Exception:
            pass
        out.append(f"\n### {pid} — {p['title']}\n")
        out.append(NOTES.get(pid, '') + '\n')
        out.append('\n*Decision:* ' + mod.EXPLANATION + '\n')
        if ev and ev.get('tier') == 'quick':
            c = ev['coverage']
            out.append(f"\n*Committed quick run:* {c['states']} paths, {c['obligations']} obligations "
                       f"({c['obligations_decided_without_solver']} decided without the solver), {c['traces_validated_against_impl']} witnesses "
                       f"replayed on the real package, {c['solver']['checks']} solver checks in {c['solver']['time_s']} s, "
                       f"{c['solver']['unknown']} unknown, wall {ev['wall_s']} s.\n")
        out.append('\n*Bounds.*\n')
        for tier in ('quick', 'thorough'):
            b = mod.BOUNDS.get(tier, {})
            out.append(f'- {tier}: ' + '; '.join(f'{k}: {v}' for k, v in b.items()) + '\n')
        out.append('\n*Assumptions (part of the claim).*\n')
        for a in mod.ASSUMPTIONS:
            out.append(f'- {a}\n')
        out.append('\n*Outside the claim.*\n')
        for a in mod.OUTSIDE:
            out.append(f'- {a}\n')
    out.append(TAIL_TOP)
    kf = json.load(open('/verif/known_findings.json'))
    for e in kf:
        if e['kind'] != 'fixed':
            continue
        line = e['line'].split(' ', 3)[3] if e['line'].startswith('fixed:') else e['what']
        out.append(f"| {e['id']} | {e['property']} | {md_escape(line)} | `{e['commit']}` |\n")
    metas = [json.load(open(d)) for d in sorted(glob.glob('/verif/seeded/*/meta.json'))]
    n_c = sum(1 for m in metas if m['first_result'].startswith('caught'))
    n_e = sum(1 for m in metas if m['first_result'].startswith('exit 2'))
    n_m = len(metas) - n_c - n_e
    out.append(TAIL_MID.replace('@SUMMARY@', f'{len(metas)} changes in nine rounds: {n_c} were reported (exit 1) by the check as it stood, {n_e} were '
               f'detected symbolically but left the check with exit 2 (a replay that was too narrow, or an unsupported construct), '
               f'{n_m} were missed (exit 0). After strengthening, every one of them is reported with exit 1 and a replayed counterexample.'))
    for d in sorted(glob.glob('/verif/seeded/*/meta.json')):
        m = json.load(open(d))
        sid = os.path.basename(os.path.dirname(d))
        first = m['first_result']
        tag = 'caught' if first.startswith('caught') else ('exit 2' if first.startswith('exit 2') else 'missed')
        out.append(f"| {sid} | {m['property']} | {md_escape(m['needs'])} | {tag} | "
                   f"{md_escape(m['strengthened'] + ' → ' + m['result']) if tag != 'caught' else 'caught as is: ' + md_escape(first[first.find(':') + 1:].strip())} |\n")
    out.append(TAIL_END)
    open('/verif/DESIGN.md', 'w').write(''.join(out))
    print('DESIGN.md written,', sum(s.count('\n') for s in out), 'lines')


if __name__ == '__main__':
    main()
