#!/bin/sh
# usage: tools_run_all.sh [quick|thorough] [ids...] - run every registered check, print one line each
tier=${1:-quick}; shift
ids=${@:-$(python3 -c "import json;print(' '.join(p['property_id'] for p in json.load(open('/verif/MANIFEST.json'))['checks']))")}
cd /verif
for id in $ids; do
  s=$(date +%s)
  VERIF_PROGRESS=0 ./check $id --tier $tier > /tmp/runall_$id.log 2>&1; rc=$?
  echo "$id rc=$rc $(($(date +%s)-s))s $(tail -1 /tmp/runall_$id.log | cut -c1-200)"
done
