#!/bin/sh
# usage: tools_try_seed.sh <worktree-id> <property> [checks...]  - evaluate a sub-agent's seeded change against our checks
id=$1; prop=$2; shift 2
src=/tmp/wt/$id/seed
dst=/verif/seeded/$id
mkdir -p $dst; cp $src/patch.diff $src/demo.py $dst/ 2>/dev/null; cp $src/notes.md $dst/notes.md 2>/dev/null
cd /repo || exit 2
git status --short | grep -q . && { echo "repo dirty"; exit 2; }
echo "--- demo on clean tree:"; (cd /repo && PYTHONPATH=/repo /venv/bin/python $dst/demo.py >/dev/null 2>&1; echo "exit $?")
git apply $dst/patch.diff || { echo "patch does not apply"; exit 2; }
echo "--- tests with change:"; /venv/bin/python -m pytest -q -p no:cacheprovider --timeout=900 2>&1 | tail -1
echo "--- demo with change:"; (cd /repo && PYTHONPATH=/repo /venv/bin/python $dst/demo.py >/tmp/demo_out.txt 2>&1; rc=$?; tail -3 /tmp/demo_out.txt; echo "exit $rc")
for c in ${@:-$prop}; do echo "--- check $c:"; (cd /verif && timeout 1500 ./check $c 2>&1 | grep -v "^  inputs\|^  replay" | tail -4 | cut -c1-300); done
git -C /repo checkout -- .
