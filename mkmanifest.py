#!/usr/bin/env python3
"""Regenerate MANIFEST.json from checks/registry.py (run from /verif)."""
import json, os, sys
sys.path.insert(0, os.path.dirname(os.path.abspath(__file__)))
from checks.registry import CHECKS, NOT_APPLICABLE, NOTES
props = [json.loads(l)['id'] for l in open('properties.jsonl')]
checks = []
for pid in props:
    c = CHECKS.get(pid)
    if not c:
        continue
    checks.append({
        'property_id': pid,
        'quick_cmd': f'./check {pid} --tier quick',
        'thorough_cmd': f'./check {pid} --tier thorough',
        'evidence_file': f'/verif/evidence/{pid}.json',
        'replay_cmd_template': f'./check {pid} --replay {{path}}',
        'engine': 'SX',
        'level_claimed': {'category': 'model_checking', 'text': c['text'], 'design_ref': c['design_ref']},
        'level_note': c['note'],
        'technique': c['technique'],
    })
na = [{'property_id': p, 'reason': NOT_APPLICABLE.get(p, 'check not built yet (build in progress)')}
      for p in props if p not in CHECKS]
m = {
    'version': 1,
    'setup_cmd': './setup.sh',
    'hooks': {'guard': 'TAPESCRIPT_VERIF',
              'enable': 'none needed: the engine loads /repo/tapescript/*.py itself on every run and replaces the '
                        'environment (clock, RNG, libsodium, hashlib, libm) through its own stub table; /repo is not instrumented',
              'baseline_off_cmd': 'cd /repo && /venv/bin/python -m pytest -ra -q -p no:cacheprovider --timeout=900 --continue-on-collection-errors',
              'source_commits': [], 'add_only': True},
    'engines': [{'name': 'SX', 'path': 'sx/', 'serves_properties': sorted(CHECKS),
                 'kind_free_text': 'symbolic execution of the real tapescript sources in CPython on z3-backed proxy values; '
                                   'exhaustive path exploration by decision replay; every obligation is an unsat query; '
                                   'counterexamples are replayed on the unmodified package before being reported'}],
    'checks': checks,
    'not_applicable': na,
    'notes': NOTES,
}
json.dump(m, open('MANIFEST.json', 'w'), indent=1)
print('checks:', [c['property_id'] for c in checks], 'not_applicable:', [n['property_id'] for n in na])
