"""Run-time helpers behind the merge rewrites of loader.Rewriter.

Each helper implements exactly the Python semantics of the construct it replaces; when all operands
are side-effect free (checked syntactically by the rewriter) and of mergeable types it returns one
symbolic value instead of forking the path, otherwise it falls back to the ordinary evaluation
order with forks.  Operands are passed as thunks; a thunk that raises while being evaluated
speculatively triggers the fallback (the raise then happens, or not, exactly as in CPython)."""
from __future__ import annotations
import z3
from .core import (SymBool, SymInt, mk_bool, mk_int, zi, to_z3bool, sym_and, sym_or, sym_not, sym_ite,
                   _isint)
from .values import SymBytes, ite_bytes, is_byteslike

STATS = dict(and_merged=0, or_merged=0, ite_merged=0, implies_merged=0, fallback=0)


def _truth(v):
    """non-forking truth value: bool | SymBool, or None if it cannot be expressed"""
    if isinstance(v, (bool, SymBool)):
        return v
    if isinstance(v, SymInt):
        return mk_bool(v.t != 0)
    if isinstance(v, SymBytes):
        return len(v) > 0
    if v is None or isinstance(v, (int, str, bytes, tuple, list, dict, float)):
        return bool(v)
    return None


def _boolop(thunks, is_and):
    vals = []          # operands from the first symbolic one on (all already evaluated)
    n = len(thunks)
    for i, th in enumerate(thunks):
        if vals:
            try:
                v = th()
            except Exception:
                STATS['fallback'] += 1
                return _boolop_fork(vals, thunks[i:], is_and)
        else:
            v = th()
        tv = _truth(v)
        if tv is None:
            tv = bool(v)
        if not vals and isinstance(tv, bool):
            # concrete operand before any symbolic one: ordinary short circuit
            if tv != is_and or i == n - 1:
                return v
            continue
        vals.append(v)
    if all(isinstance(v, (bool, SymBool)) for v in vals):
        STATS['and_merged' if is_and else 'or_merged'] += 1
        return sym_and(*vals) if is_and else sym_or(*vals)
    STATS['fallback'] += 1
    return _boolop_fork(vals, [], is_and)


def _boolop_fork(vals, rest, is_and):
    """Python semantics with forks over the operands already evaluated (pure) and the rest"""
    seq = [(lambda v=v: v) for v in vals] + list(rest)
    n = len(seq)
    for i, th in enumerate(seq):
        v = th()
        if i == n - 1 or bool(v) != is_and:
            return v


def sx_and(*thunks):
    return _boolop(thunks, True)


def sx_or(*thunks):
    return _boolop(thunks, False)


def sx_ite(c, ta, tb):
    t = _truth(c)
    if t is None:
        t = bool(c)
    if isinstance(t, bool):
        return ta() if t else tb()
    try:
        a = ta()
        b = tb()
    except Exception:
        STATS['fallback'] += 1
        return ta() if bool(t) else tb()
    if a is b:
        return a
    if isinstance(a, (bool, SymBool)) and isinstance(b, (bool, SymBool)):
        STATS['ite_merged'] += 1
        return sym_ite(t, a, b)
    if (_isint(a) and not isinstance(a, (bool, SymBool))) and (_isint(b) and not isinstance(b, (bool, SymBool))):
        STATS['ite_merged'] += 1
        return sym_ite(t, a, b)
    if is_byteslike(a) and is_byteslike(b) and len(a) == len(b):
        STATS['ite_merged'] += 1
        return ite_bytes(t, a, b)
    STATS['fallback'] += 1
    return a if bool(t) else b


def sx_implies(c, th):
    """value v such that guard(v) behaves like `if c: guard(th())`"""
    t = _truth(c)
    if t is None:
        t = bool(c)
    if isinstance(t, bool):
        return th() if t else True
    try:
        v = th()
    except Exception:
        STATS['fallback'] += 1
        return th() if bool(t) else True
    tv = _truth(v)
    if tv is None:
        STATS['fallback'] += 1
        return v if bool(t) else True
    STATS['implies_merged'] += 1
    return sym_or(sym_not(t), tv)


def helpers():
    return {'__sx_and__': sx_and, '__sx_or__': sx_or, '__sx_ite__': sx_ite, '__sx_implies__': sx_implies}
