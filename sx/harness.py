"""Check infrastructure: harness jobs, obligations, witness replay, counterexample replay, known findings,
evidence files, parallel execution."""
from __future__ import annotations
import json
import multiprocessing as mp
import os
import sys
import time
import traceback
import z3
from . import core, loader, stubs, strings
from .core import Engine, SymInt, SymBool, to_z3bool, mk_bool, SxError, Infeasible
from .values import SymBytes, SymByteArray, fresh_bytes, fresh_int, fresh_bool, fresh_byte
from .containers import SDict, SDeque, SSet

VERIF = os.path.dirname(os.path.dirname(os.path.abspath(__file__)))
EVDIR = os.environ.get('VERIF_EVIDENCE') or os.path.join(VERIF, 'evidence')

_PKG = {}


def package(merge=True):
    """instrumented tapescript instance of this process (loaded once per process and merge mode)"""
    p = _PKG.get(merge)
    if p is None:
        p = _PKG[merge] = loader.load(merge=merge)
    return p


def fresh_package(merge=True):
    return loader.load(merge=merge)


# ------------------------------------------------------------------------------ model evaluation
def model_value(model, v):
    """concrete Python value of a (possibly symbolic) structure under a z3 model"""
    if isinstance(v, SymInt):
        return model.eval(v.t, model_completion=True).as_long()
    if isinstance(v, SymBool):
        return z3.is_true(model.eval(v.t, model_completion=True))
    if isinstance(v, (SymBytes, SymByteArray)):
        out = bytes(x if isinstance(x, int) else model.eval(x, model_completion=True).as_long() for x in v.b)
        return out if isinstance(v, SymBytes) else bytearray(out)
    if z3.is_expr(v):
        r = model.eval(v, model_completion=True)
        if z3.is_int_value(r):
            return r.as_long()
        if z3.is_true(r):
            return True
        if z3.is_false(r):
            return False
        return str(r)
    if isinstance(v, str):
        return model_str(model, v)
    if isinstance(v, (list, tuple)):
        t = [model_value(model, x) for x in v]
        return t if isinstance(v, list) else tuple(t)
    if isinstance(v, SDeque):
        return [model_value(model, x) for x in v.items]
    if isinstance(v, SDict):
        return {_hashable(model_value(model, k)): model_value(model, x) for k, x in v.entries}
    if isinstance(v, dict):
        return {_hashable(model_value(model, k)): model_value(model, x) for k, x in v.items()}
    if isinstance(v, SSet):
        return {_hashable(model_value(model, x)) for x in v.items}
    if getattr(v, '_sx_float', False):
        from . import floats
        return floats.model_float(model, v)
    if hasattr(v, '_sx_view'):
        return v.model_value(model)
    return v


def _hashable(x):
    if isinstance(x, list):
        return tuple(_hashable(y) for y in x)
    if isinstance(x, bytearray):
        return bytes(x)
    return x


def model_str(model, s):
    if not strings.has_placeholder(s) and strings.HEX_MARK not in s:
        return s
    reg = core.eng().run_cache.get('strreg') or {'terms': [], 'decs': []}
    out = []
    i = 0
    while i < len(s):
        c = s[i]
        if strings.is_placeholder(c):
            kind, t = reg['terms'][ord(c) - strings.PUA_BASE]
            if kind == 'utf8m':
                bs = bytes(x if isinstance(x, int) else model.eval(x, model_completion=True).as_long() for x in t)
                out.append(bs.decode('utf-8', errors='replace'))
                i += 1
                continue
            v = model.eval(t, model_completion=True).as_long()
            if kind == 'hex':
                out.append('%02x' % v)
                i += 2
                continue
            out.append(chr(v))
        elif c in strings._NUM_INDEX:
            t = reg['decs'][strings._NUM_INDEX[c]]
            out.append(str(model.eval(t, model_completion=True).as_long()))
        else:
            out.append(c)
        i += 1
    return ''.join(out)


def jsonable(v):
    if isinstance(v, (bytes, bytearray)):
        return {'hex': bytes(v).hex()}
    if isinstance(v, (list, tuple, set, frozenset)):
        return [jsonable(x) for x in v]
    if isinstance(v, dict):
        return {(k.hex() + ':bytes' if isinstance(k, bytes) else str(k)): jsonable(x) for k, x in v.items()}
    if isinstance(v, (int, str, bool, float)) or v is None:
        return v
    if isinstance(v, BaseException):
        return {'exc': type(v).__name__, 'msg': str(v)}
    return repr(v)


def unjson(v):
    if isinstance(v, dict) and set(v.keys()) == {'hex'}:
        return bytes.fromhex(v['hex'])
    if isinstance(v, list):
        return [unjson(x) for x in v]
    if isinstance(v, dict):
        out = {}
        for k, x in v.items():
            if k.endswith(':bytes'):
                out[bytes.fromhex(k[:-6])] = unjson(x)
            else:
                out[k] = unjson(x)
        return out
    return v


# ------------------------------------------------------------------------------ path context
class PathCtx:
    """what a harness function sees on one path"""

    concrete = False

    def __init__(self, job):
        self.job = job
        self.e = core.eng()
        self.obs = None

    def dict(self, init=None):
        from .containers import SDict
        return SDict(init) if init is not None else SDict()

    # symbolic inputs
    def bytes(self, name, n):
        return fresh_bytes(name, n)

    def int(self, name, lo=None, hi=None):
        return fresh_int(name, lo, hi)

    def bool(self, name):
        return fresh_bool(name)

    def byte(self, name):
        return fresh_byte(name)

    def input(self, name, value):
        """register a concrete or derived value as a named input (appears in counterexamples)"""
        self.e.inputs[name] = value
        return value

    def assume(self, cond):
        self.e.assume(cond)

    def note_assumption(self, text):
        self.job.assumptions.add(text)

    def observe(self, **kw):
        """symbolic observables of this path, compared with the real implementation on a witness"""
        if self.obs is None:
            self.obs = {}
        self.obs.update(kw)

    # obligations
    def check(self, name, cond, **info):
        self.job.check(name, cond, info)

    def reach(self, label):
        """reachability marker (anti-vacuity): counted per label"""
        self.job.reached[label] = self.job.reached.get(label, 0) + 1


class _RealPkg:
    """the real, unmodified package with the attribute layout of the instrumented one"""

    def __init__(self):
        import importlib
        for m in ('functions', 'classes', 'errors', 'parsing', 'tools', 'interfaces'):
            try:
                setattr(self, m, importlib.import_module('tapescript.' + m))
            except ImportError:
                pass


def real_package():
    return _RealPkg()


class ConcreteCtx:
    """the harness context on concrete inputs: the same harness function, run against the real package, replays a
    counterexample and re-evaluates its obligations concretely"""
    concrete = True

    def __init__(self, inputs):
        self.inputs = dict(inputs)
        self.failed = {}
        self.assumption_broken = False
        self.reached = {}
        self.obs = None
        self.e = self

    def dict(self, init=None):
        return dict(init) if init is not None else {}

    def bytes(self, name, n):
        v = self.inputs.get(name)
        v = bytes(v) if isinstance(v, (bytes, bytearray)) else b''
        return (v + b'\x00' * n)[:n]

    def int(self, name, lo=None, hi=None):
        v = self.inputs.get(name)
        if not isinstance(v, int) or isinstance(v, bool):
            v = lo if lo is not None else 0
        return v

    def bool(self, name):
        return bool(self.inputs.get(name, False))

    def byte(self, name):
        v = self.inputs.get(name, 0)
        return v if isinstance(v, int) else 0

    def input(self, name, value):
        return self.inputs.get(name, value)

    @staticmethod
    def _truth(cond):
        if isinstance(cond, SymBool) or z3.is_expr(cond):
            t = z3.simplify(to_z3bool(cond))
            if z3.is_true(t):
                return True
            if z3.is_false(t):
                return False
            raise ValueError('symbolic condition in a concrete replay')
        return bool(cond)

    def assume(self, cond):
        if not self._truth(cond):
            self.assumption_broken = True

    def note_assumption(self, text):
        pass

    def observe(self, **kw):
        self.obs = dict(self.obs or {}, **kw)

    def check(self, name, cond, **info):
        if not self._truth(cond):
            self.failed.setdefault(name, {k: repr(v)[:200] for k, v in info.items()})

    def reach(self, label):
        self.reached[label] = self.reached.get(label, 0) + 1


def auto_replay(fn):
    """replay(inputs, params, obligation) that runs the harness function itself on the real package"""
    def replay(inputs, params, obligation):
        c = ConcreteCtx(inputs)
        fn(c, real_package(), **params)
        hit = bool(c.failed) if obligation == '*' else obligation in c.failed
        return {'reproduced': hit and not c.assumption_broken, 'failed': c.failed, 'assumption_broken': c.assumption_broken}
    return replay


class PinnedCtx(PathCtx):
    """the harness context with every input pinned to a concrete value: one path of the instrumented package"""

    def __init__(self, job, inputs):
        super().__init__(job)
        self.pinned = inputs
        self.failed = {}

    def bytes(self, name, n):
        v = self.pinned.get(name)
        v = bytes(v) if isinstance(v, (bytes, bytearray)) else b''
        v = (v + b'\x00' * n)[:n]
        self.e.inputs[name] = v
        return v

    def int(self, name, lo=None, hi=None):
        v = self.pinned.get(name)
        if not isinstance(v, int) or isinstance(v, bool):
            v = lo if lo is not None else 0
        self.e.inputs[name] = v
        return v

    def bool(self, name):
        v = bool(self.pinned.get(name, False))
        self.e.inputs[name] = v
        return v

    def byte(self, name):
        v = self.pinned.get(name, 0)
        v = v if isinstance(v, int) else 0
        self.e.inputs[name] = v
        return v

    def check(self, name, cond, **info):
        if isinstance(cond, SymBool) or z3.is_expr(cond):
            t = to_z3bool(cond)
            bad = self.e._check(z3.Not(t)) != z3.unsat
        else:
            bad = not bool(cond)
        if bad:
            self.failed.setdefault(name, {k: repr(v)[:160] for k, v in info.items()})


def pinned_replay(spec_name, module, concrete=None):
    """replay for harnesses whose reference only exists symbolically: (1) the harness function is re-run on the instrumented
    package with every input pinned to the counterexample's value - the obligation must fail again; (2) the observables of that
    concrete run must equal those of the real package (`concrete`), so the failing behaviour is the real code's"""
    def replay(inputs, params, obligation):
        import importlib
        mod = importlib.import_module(module)
        spec = next(s for s in mod.HARNESSES if s.name == spec_name)
        outer = core._ENGINE
        saved_abs = dict(core.ABSTRACT)
        try:
            e2 = Engine()
            job = Job(spec, params, 'quick', 0)
            pkg = package(spec.merge)
            res = {}

            def fn():
                stubs.CONFIG.reset()
                for _k in core.ABSTRACT:
                    core.ABSTRACT[_k] = False
                c = PinnedCtx(job, inputs)
                res['c'] = c
                spec.fn(c, pkg, **params)

            def on_path(pr):
                c = res['c']
                res.setdefault('paths', []).append((dict(c.failed), pr.poison, c.obs and model_value(None, c.obs) if False else c.obs))
            e2.explore(fn, on_path)
            paths = res.get('paths', [])
            failing = [p for p in paths if obligation in p[0] and not p[1]]
            out = {'paths': len(paths), 'fails_when_pinned': bool(failing)}
            if not failing:
                out['reproduced'] = False
                return out
            if concrete is not None:
                obs = failing[0][2]
                if obs is None:
                    # no observables on this path (stub / summary involved): the pinned run is the evidence
                    out['reproduced'] = True
                    out['real_observables'] = 'not compared (path involves an environment stub)'
                    return out
                got = concrete(inputs, params)
                want = {k: jsonable(v) for k, v in obs.items()}
                diff = {k: (want[k], jsonable(got.get(k, '<missing>'))) for k in want if want[k] != jsonable(got.get(k, '<missing>'))}
                out['real_matches_instrumented'] = not diff
                out['reproduced'] = not diff
                if diff:
                    out['diff'] = diff
                return out
            out['reproduced'] = True
            return out
        finally:
            core._ENGINE = outer
            core.ABSTRACT.update(saved_abs)
    return replay


class Job:
    """one harness instance (harness function + parameters) explored exhaustively in one process"""

    def __init__(self, spec, params, tier, seed):
        self.spec = spec
        self.params = params
        self.tier = tier
        self.seed = seed
        self.assumptions = set()
        self.reached = {}
        self.violations = []       # dicts
        self.inconclusive = []
        self.samples = []
        self.witnesses = 0
        self.witness_fail = []
        self.n_oblig = 0
        self.n_discharged = 0
        self.n_concrete = 0
        self.poison = []
        self.path_index = 0
        self.cur_obs = None
        self.pending = []

    def check(self, name, cond, info):
        """obligations are collected and decided at the end of the path (one query for their conjunction;
        individual queries only if that is not unsat).  Deciding at the end of the path is equivalent:
        the paths that extend the point of the check partition its path condition."""
        self.n_oblig += 1
        if isinstance(cond, SymBool) or z3.is_expr(cond):
            t = to_z3bool(cond)
            if z3.is_true(t):
                self.n_discharged += 1
                self.n_concrete += 1
                return
        else:
            if bool(cond):
                self.n_discharged += 1
                self.n_concrete += 1
                return
            t = z3.BoolVal(False)
        self.pending.append((name, t, info))

    def flush(self):
        pend, self.pending = self.pending, []
        if not pend:
            return
        e = core.eng()
        if len(pend) > 1:
            r = e._check(z3.Not(z3.And(*[t for _, t, _ in pend])))
            if r == z3.unsat:
                self.n_discharged += len(pend)
                self._sample(pend[0][0], z3.Not(z3.And(*[t for _, t, _ in pend])), r)
                return
        for name, t, info in pend:
            self._decide(name, t, info)

    def _sample(self, name, neg, r):
        if len(self.samples) >= 2:
            return
        try:
            e = core.eng()
            s = z3.Solver()
            s.add(*e.pc())
            s.add(neg)
            txt = s.to_smt2()
            self.samples.append({'harness': self.spec.name, 'params': jsonable(self.params),
                                 'obligation': name, 'verdict': str(r),
                                 'smt2_bytes': len(txt), 'smt2_head': txt[:1500]})
        except Exception:
            pass

    def _decide(self, name, t, info):
        e = core.eng()
        neg = z3.Not(t)
        r = e._check(neg, retry='always')
        self._sample(name, neg, r)
        if r == z3.unsat:
            self.n_discharged += 1
            return
        if r == z3.unknown:
            # the solver could neither prove the obligation nor produce a model.  Never a pass: if the harness
            # offers candidate inputs, a counterexample found by replaying them on the real code is reported as a
            # violation; otherwise the run is inconclusive (exit 2).
            if self.spec.fallback is not None and self.spec.replay is not None:
                import random
                rng = random.Random(self.seed * 7919 + len(self.violations))
                for _ in range(self.spec.fallback_tries):
                    cand = self.spec.fallback(self.params, rng)
                    try:
                        rep = self.spec.replay(cand, self.params, name)
                    except BaseException as ex:      # noqa
                        rep = {'reproduced': False, 'error': f'{type(ex).__name__}: {ex}'}
                    if rep.get('reproduced'):
                        self.violations.append({'harness': self.spec.name, 'params': jsonable(self.params), 'obligation': name,
                                                'inputs': jsonable(cand), 'info': {'found_by': 'candidate replay after solver unknown'},
                                                'path': self.path_index, 'replay': jsonable(rep)})
                        return
            self.inconclusive.append({'harness': self.spec.name, 'params': jsonable(self.params),
                                      'obligation': name, 'why': 'solver unknown'})
            return
        model = e.solver.model()
        # refine the counterexample against the real libm (the log2 stub is a contract, not a function): add the true
        # facts log2(nv) = <real value> for the model's arguments and ask again, until the model agrees with them
        facts = []
        for _ in range(12):
            new = [f for f in stubs.log2_facts(model) if not z3.is_true(model.eval(f, model_completion=True))]
            if not new:
                break
            facts += new
            r = e._check(neg, *facts, retry='always')
            if r == z3.unsat:
                self.n_discharged += 1
                return
            if r == z3.unknown:
                self.inconclusive.append({'harness': self.spec.name, 'params': jsonable(self.params),
                                          'obligation': name, 'why': 'solver unknown during log2 refinement'})
                return
            model = e.solver.model()
        else:
            self.inconclusive.append({'harness': self.spec.name, 'params': jsonable(self.params),
                                      'obligation': name, 'why': 'log2 refinement did not converge'})
            return
        inputs = {k: model_value(model, v) for k, v in e.inputs.items()}
        v = {'harness': self.spec.name, 'params': jsonable(self.params), 'obligation': name,
             'inputs': jsonable(inputs), 'info': jsonable({k: model_value(model, x) for k, x in info.items()}),
             'path': self.path_index}
        # keep at most a few counterexamples per (obligation) and job
        same = [x for x in self.violations if x['obligation'] == name]
        if len(same) < 3:
            if self.spec.replay is not None:
                try:
                    rep = self.spec.replay(unjson(v['inputs']), self.params, name)
                    v['replay'] = jsonable(rep)
                except BaseException as ex:           # noqa
                    v['replay'] = {'reproduced': False, 'error': f'{type(ex).__name__}: {ex}',
                                   'tb': traceback.format_exc()[-1500:]}
            else:
                v['replay'] = {'reproduced': False, 'error': 'no replay function'}
            self.violations.append(v)


class HarnessSpec:
    def __init__(self, name, fn, params=None, replay=None, concrete=None, signature=None, merge=True,
                 witness_every=1, fresh_pkg=False, doc='', fallback=None, fallback_tries=6, witness_replay=False):
        self.name = name
        self.fn = fn                      # fn(ctx, pkg, **params) -> outcome
        self.params = params or [{}]      # list of dicts | callable(tier) -> list of dicts
        self.replay = replay              # replay(inputs, params, obligation) -> {'reproduced': bool, ...}
        self.concrete = concrete          # concrete(inputs, params) -> observables dict (real code)
        self.signature = signature        # signature(violation) -> dict used to match known findings
        self.merge = merge
        self.witness_every = witness_every
        self.fresh_pkg = fresh_pkg
        self.doc = doc
        self.fallback = fallback          # fallback(params, rng) -> candidate inputs tried when the solver answers unknown
        self.fallback_tries = fallback_tries
        # witness_replay: on sampled paths that produced no counterexample, a model of the path condition is handed to the replay
        # function ('*' as obligation): the real package must NOT show a violation for it (a trace validated against the
        # implementation for harnesses whose observables are abstract)
        self.witness_replay = witness_replay

    def param_list(self, tier):
        return self.params(tier) if callable(self.params) else self.params


def run_job(args):
    spec_mod, spec_name, params, tier, seed, timeout = args
    import importlib
    t0 = time.time()
    try:
        mod = importlib.import_module(spec_mod)
        spec = next(s for s in mod.HARNESSES if s.name == spec_name)
        job = Job(spec, params, tier, seed)
        e = Engine()
        pkg = fresh_package(spec.merge) if spec.fresh_pkg else package(spec.merge)
        snap = loader.snapshot(pkg) if spec.fresh_pkg else None

        def fn():
            stubs.CONFIG.reset()
            for _k in core.ABSTRACT:
                core.ABSTRACT[_k] = False
            if snap is not None:
                loader.restore(pkg, snap)
            job.pending = []
            c = PathCtx(job)
            job.cur_ctx = c
            out = spec.fn(c, pkg, **params)
            return out

        def on_path(pr):
            job.path_index += 1
            if pr.poison:
                job.pending = []
                if len(job.poison) < 5:
                    job.poison.append(pr.poison)
                return
            job.flush()
            c = job.cur_ctx
            if spec.concrete is not None and c.obs is not None and \
                    (job.path_index % spec.witness_every == 0 or job.path_index <= 3):
                r = e._check()
                model = e.solver.model() if r == z3.sat else None
                # pin nondeterministic stubs (log2) to the behaviour of the real environment
                for _ in range(4):
                    if model is None:
                        break
                    ref = stubs.witness_refinement(model)
                    if not ref or all(z3.is_true(model.eval(x, model_completion=True)) for x in ref):
                        break
                    r = e._check(*ref)
                    model = e.solver.model() if r == z3.sat else None
                else:
                    model = None
                if model is None:
                    job.witness_skipped = getattr(job, 'witness_skipped', 0) + 1
                else:
                    inputs = {k: model_value(model, v) for k, v in e.inputs.items()}
                    want = model_value(model, c.obs)
                    try:
                        got = spec.concrete(inputs, params)
                    except BaseException as ex:      # noqa
                        got = {'harness_exception': f'{type(ex).__name__}: {ex}'}
                    job.witnesses += 1
                    bad = {k: (jsonable(want[k]), jsonable(got.get(k, '<missing>'))) for k in want
                           if jsonable(want[k]) != jsonable(got.get(k, '<missing>'))}
                    if bad and len(job.witness_fail) < 5:
                        job.witness_fail.append({'inputs': jsonable(inputs), 'diff(sym,real)': bad,
                                                 'params': jsonable(params)})

            elif spec.witness_replay and spec.replay is not None and not job.violations and \
                    (job.path_index % spec.witness_every == 0 or job.path_index <= 3):
                try:
                    e._trim()
                    e.set_timeout(4000)
                    r = e.solver.check()           # (no retry: a witness that is expensive to find is skipped)
                finally:
                    e.set_timeout()
                if r == z3.sat:
                    model = e.solver.model()
                    inputs = {k: model_value(model, v) for k, v in e.inputs.items()}
                    try:
                        rep = spec.replay(unjson(jsonable(inputs)), params, '*')
                    except BaseException as ex:      # noqa
                        rep = {'reproduced': False, 'note': f'{type(ex).__name__}: {ex}'}
                    if str(rep.get('note', '')).startswith('degenerate input'):
                        job.witness_skipped = getattr(job, 'witness_skipped', 0) + 1
                    else:
                        job.witnesses += 1
                        if rep.get('reproduced') and len(job.witness_fail) < 5:
                            job.witness_fail.append({'inputs': jsonable(inputs), 'real_package_disagrees': jsonable(rep),
                                                     'params': jsonable(params)})
                else:
                    job.witness_skipped = getattr(job, 'witness_skipped', 0) + 1

        # checks issued inside fn run while the path condition is on the solver
        e.explore(fn, on_path)
        res = dict(ok=True, harness=spec_name, params=jsonable(params), stats=e.stats,
                   assumptions=sorted(job.assumptions), reached=job.reached, violations=job.violations,
                   inconclusive=job.inconclusive, samples=job.samples, witnesses=job.witnesses,
                   witness_fail=job.witness_fail, obligations=job.n_oblig, discharged=job.n_discharged,
                   concrete_obligations=job.n_concrete, poison=job.poison, wall=time.time() - t0)
        return res
    except BaseException as ex:          # noqa
        return dict(ok=False, harness=spec_name, params=jsonable(params),
                    error=f'{type(ex).__name__}: {ex}', tb=traceback.format_exc()[-3000:],
                    wall=time.time() - t0)


# ------------------------------------------------------------------------------ check driver
def load_known():
    p = os.path.join(VERIF, 'known_findings.json')
    if not os.path.exists(p):
        return []
    return json.load(open(p))


def matches(sig, match):
    return all(sig.get(k) == v for k, v in match.items())


class CheckRunner:
    def __init__(self, pid, module, tier='quick', seed=0, procs=None):
        self.pid = pid
        self.module = module
        self.tier = tier
        self.seed = seed
        self.procs = procs or min(16, os.cpu_count() or 4)

    def run(self):
        import importlib
        t0 = time.time()
        mod = importlib.import_module(self.module)
        jobs = []
        for spec in mod.HARNESSES:
            for p in spec.param_list(self.tier):
                jobs.append((self.module, spec.name, p, self.tier, self.seed, None))
        if self.seed:
            import random
            random.Random(self.seed).shuffle(jobs)
        results = []
        if self.procs > 1 and len(jobs) > 1:
            ctx = mp.get_context('fork')
            with ctx.Pool(min(self.procs, len(jobs)), maxtasksperchild=None) as pool:
                for r in pool.imap_unordered(run_job, jobs, chunksize=1):
                    results.append(r)
                    if os.environ.get('VERIF_PROGRESS'):
                        print(f"[{len(results)}/{len(jobs)}] {r['harness']} {json.dumps(r['params'])} "
                              f"{r.get('wall', 0):.1f}s paths={r.get('stats', {}).get('paths')} ok={r.get('ok')}",
                              file=sys.stderr, flush=True)
        else:
            for j in jobs:
                results.append(run_job(j))
        return self.finish(mod, results, time.time() - t0)

    def finish(self, mod, results, wall):
        known = [k for k in load_known() if k.get('property') == self.pid]
        status = 0
        errors, viol_new, viol_known, nonrepro = [], [], [], []
        tot = dict(paths=0, events=0, solver_checks=0, solver_time=0.0, unknown=0, obligations=0,
                   discharged=0, concrete_obligations=0, witnesses=0, dropped=0, max_depth=0)
        assumptions = set(getattr(mod, 'ASSUMPTIONS', []))
        samples, harness_rows, reached = [], [], {}
        for r in results:
            if not r.get('ok'):
                errors.append(f"harness {r['harness']} {r['params']}: {r.get('error')}\n{r.get('tb', '')}")
                continue
            st = r['stats']
            for k in ('paths', 'events', 'solver_checks', 'solver_time', 'unknown', 'dropped'):
                tot[k] += st[k]
            tot['max_depth'] = max(tot['max_depth'], st['max_depth'])
            tot['obligations'] += r['obligations']
            tot['discharged'] += r['discharged']
            tot['concrete_obligations'] += r['concrete_obligations']
            tot['witnesses'] += r['witnesses']
            assumptions.update(r['assumptions'])
            samples.extend(r['samples'])
            for k, v in r['reached'].items():
                reached[k] = reached.get(k, 0) + v
            harness_rows.append({'harness': r['harness'], 'params': r['params'], 'paths': st['paths'],
                                 'obligations': r['obligations'], 'discharged': r['discharged'],
                                 'wall_s': round(r['wall'], 2)})
            for p in r['poison']:
                errors.append(f"harness {r['harness']} {r['params']}: path aborted: {p}")
            for w in r['witness_fail']:
                errors.append(f"harness {r['harness']}: engine/implementation mismatch on witness: "
                              f"{json.dumps(w)[:1200]}")
            for inc in r['inconclusive']:
                errors.append(f"inconclusive: {json.dumps(inc)[:600]}")
            if st['paths'] == 0:
                errors.append(f"harness {r['harness']} {r['params']}: vacuous (no feasible path)")
            for v in r['violations']:
                spec = next(s for s in mod.HARNESSES if s.name == v['harness'])
                sig = spec.signature(v) if spec.signature else {'harness': v['harness'],
                                                                'obligation': v['obligation']}
                v['signature'] = sig
                k = next((k for k in known if k.get('kind') == 'known' and matches(sig, k['match'])), None)
                if not v.get('replay', {}).get('reproduced'):
                    nonrepro.append(v)
                elif k is not None:
                    viol_known.append((k, v))
                else:
                    viol_new.append(v)
        need = getattr(mod, 'MUST_REACH', [])
        for label in need:
            if not reached.get(label):
                errors.append(f'vacuity: reachability marker {label!r} never reached')
        os.makedirs(os.path.join(EVDIR, 'replay'), exist_ok=True)
        stale = os.path.join(EVDIR, f'{self.pid}.nonrepro.json')
        if os.path.exists(stale):
            os.remove(stale)
        printed = set()
        for k, v in viol_known:
            if k['id'] not in printed:
                printed.add(k['id'])
                print(f"KNOWN-FINDING: property={self.pid} {k['id']}: {k['what']}")
        replay_paths = []
        seen_sigs = set()
        for i, v in enumerate(viol_new):
            key = json.dumps(v['signature'], sort_keys=True)
            if key in seen_sigs and i >= 3:
                continue
            seen_sigs.add(key)
            path = os.path.join(EVDIR, 'replay', f'{self.pid}-{len(replay_paths)}.json')
            json.dump({'property': self.pid, **v}, open(path, 'w'), indent=1)
            replay_paths.append(path)
            print(f'VIOLATION property={self.pid} replay={path}')
            print(f"  harness={v['harness']} obligation={v['obligation']} signature={v['signature']}")
            print(f"  inputs={json.dumps(v['inputs'])[:700]}")
            print(f"  replay={json.dumps(v.get('replay'))[:700]}")
            status = 1
        if nonrepro:
            path = os.path.join(EVDIR, f'{self.pid}.nonrepro.json')
            json.dump(nonrepro[:20], open(path, 'w'), indent=1)
            for v in nonrepro[:5]:
                errors.append(f"counterexample did not reproduce on the real code (harness error, not a "
                              f"violation): {v['harness']}/{v['obligation']} "
                              f"{json.dumps(v.get('replay'))[:500]} inputs={json.dumps(v['inputs'])[:500]}")
        fn_hashes = loader.function_hashes(getattr(mod, 'FUNCTIONS', []))
        ev = {
            'property_id': self.pid, 'tier': self.tier, 'seed': self.seed, 'level': 'model_checking',
            'coverage': {
                'states': tot['paths'], 'transitions': tot['events'] + tot['paths'],
                'traces_validated_against_impl': tot['witnesses'] + len(viol_new) + len(viol_known),
                'samples': (samples[:6] or [{'note': 'all obligations were decided concretely'}]),
                'exhaustive': False,
                'obligations': tot['obligations'], 'discharged': tot['discharged'],
                'obligations_decided_without_solver': tot['concrete_obligations'],
                'explanation': getattr(mod, 'EXPLANATION', ''),
                'technique': 'symbolic execution of the real source with z3 (all feasible paths within the '
                             'stated bounds; every obligation is an unsat query on the path condition)',
                'functions_encoded': fn_hashes,
                'source_sha256': loader.source_hashes(),
                'bounds': getattr(mod, 'BOUNDS', {}).get(self.tier, getattr(mod, 'BOUNDS', {})),
                'outside_claim': getattr(mod, 'OUTSIDE', []),
                'harnesses': harness_rows[:400],
                'n_harness_jobs': len(harness_rows),
                'reachability_markers': reached,
                'solver': {'name': 'z3 ' + z3.get_version_string(), 'checks': tot['solver_checks'],
                           'time_s': round(tot['solver_time'], 2), 'unknown': tot['unknown'],
                           'max_path_depth': tot['max_depth'], 'paths_dropped_by_assumptions': tot['dropped']},
                'known_findings_printed': sorted(printed),
                'errors': errors[:20],
            },
            'assumptions': sorted(assumptions),
            'wall_s': round(wall, 2),
            'violations': len(viol_new),
        }
        os.makedirs(os.path.join(EVDIR), exist_ok=True)
        json.dump(ev, open(os.path.join(EVDIR, f'{self.pid}.json'), 'w'), indent=1)
        if errors:
            for er in errors[:12]:
                print('HARNESS-ERROR:', er, file=sys.stderr)
            if status == 0:
                status = 2
        print(f"{self.pid} [{self.tier}] paths={tot['paths']} obligations={tot['obligations']} "
              f"discharged={tot['discharged']} witnesses={tot['witnesses']} known={len(printed)} "
              f"violations={len(viol_new)} errors={len(errors)} solver={tot['solver_time']:.1f}s "
              f"wall={wall:.1f}s -> exit {status}")
        return status
