"""Builtins injected into the analysed modules (the names int, bytes, len, type ... resolve to these)."""
from __future__ import annotations
import builtins as _b
import collections
import z3
from .core import (eng, SymInt, SymBool, SymRatio, mk_int, mk_bool, zi, Unsupported, _conc, _isint,
                   sym_or, sym_not)
from .values import (SymBytes, SymByteArray, mk_bytes, items_of, check_byte, from_bytes_model,
                     int_to_bytes_model, bytes_join)
from .containers import SDict, SDeque, SSet, key_eq, sx_dict_display, _STAR
from . import strings


class _Meta(type):
    def __instancecheck__(cls, obj):
        return cls._sx_check(obj)

    def __subclasscheck__(cls, sub):
        return sub is cls or (isinstance(sub, type) and issubclass(sub, cls._sx_real))

    def __repr__(cls):
        return f"<class '{cls._sx_real.__name__}'>"

    @property
    def __name__(cls):
        return cls._sx_real.__name__

    def __or__(cls, other):          # annotations like bytes|SigningKey evaluated at def time
        return _b.object

    def __ror__(cls, other):
        return _b.object


class SxInt(metaclass=_Meta):
    _sx_real = _b.int

    @staticmethod
    def _sx_check(obj):
        return isinstance(obj, (_b.int, SymInt, SymBool))

    def __new__(cls, x=0, base=None):
        if base is not None:
            if isinstance(x, str):
                return strings.parse_int(x, _conc(base))
            return _b.int(x, base)
        if isinstance(x, SymInt):
            return x
        if isinstance(x, SymBool):
            return mk_int(zi(x), 1)
        if isinstance(x, str):
            return strings.parse_int(x)
        if getattr(x, '_sx_float', False):
            from . import floats
            return floats.float_to_int(x)
        if isinstance(x, SymRatio):
            eng().fail(Unsupported, 'int() of symbolic ratio')
        return _b.int(x)

    @staticmethod
    def from_bytes(b, byteorder='big', *, signed=False):
        if isinstance(b, (_b.bytes, _b.bytearray)):
            return _b.int.from_bytes(b, byteorder, signed=signed)
        if isinstance(b, (SymBytes, SymByteArray)):
            return from_bytes_model(b, byteorder, signed=signed)
        if hasattr(b, '_sx_view'):
            return b.to_int(byteorder, signed)
        return _b.int.from_bytes(b, byteorder, signed=signed)

    @staticmethod
    def to_bytes(v, length=1, byteorder='big', *, signed=False):
        return int_to_bytes_model(v, length, byteorder, signed)


class SxBytes(metaclass=_Meta):
    _sx_real = _b.bytes

    @staticmethod
    def _sx_check(obj):
        return isinstance(obj, (_b.bytes, SymBytes)) or hasattr(obj, '_sx_view')

    def __new__(cls, *args, **kw):
        if not args:
            return b''
        x = args[0]
        if isinstance(x, (SymBytes,)) or hasattr(x, '_sx_view'):
            return x
        if isinstance(x, SymByteArray):
            return mk_bytes(x.b)
        if isinstance(x, str):
            if len(args) < 2 and 'encoding' not in kw:
                raise TypeError('string argument without an encoding')
            return strings.encode_utf8(x)
        if isinstance(x, (SymInt,)):
            return _b.bytes(_conc(x))
        if isinstance(x, (list, tuple)):
            return mk_bytes([check_byte(i) for i in x])
        if hasattr(x, '_sx_bytes'):
            return x._sx_bytes()
        if not isinstance(x, (_b.bytes, _b.bytearray, _b.int, memoryview)) and hasattr(type(x), '__bytes__') \
                and len(args) == 1 and not kw:
            r = x.__bytes__()
            if not isinstance(r, (_b.bytes, SymBytes)):
                raise TypeError(f'__bytes__ returned non-bytes (type {type(r).__name__})')
            return r
        return _b.bytes(*args, **kw)

    @staticmethod
    def fromhex(s):
        return strings.fromhex(s)

    @staticmethod
    def join(sep, seq):
        return bytes_join(sep, seq)


class SxByteArray(metaclass=_Meta):
    _sx_real = _b.bytearray

    @staticmethod
    def _sx_check(obj):
        return isinstance(obj, (_b.bytearray, SymByteArray))

    def __new__(cls, *args):
        if not args:
            return SymByteArray()
        x = args[0]
        if isinstance(x, (_b.bytes, _b.bytearray, SymBytes, SymByteArray)):
            return SymByteArray(items_of(x))
        if isinstance(x, (int, SymInt)):
            return SymByteArray([0] * _conc(x))
        return SymByteArray([check_byte(i) for i in x])


class SxStr(metaclass=_Meta):
    _sx_real = _b.str

    @staticmethod
    def _sx_check(obj):
        return isinstance(obj, _b.str)

    def __new__(cls, *args, **kw):
        if not args:
            return ''
        x = args[0]
        if isinstance(x, (SymBytes,)) and (len(args) > 1 or 'encoding' in kw):
            return strings.decode_utf8(x)
        if isinstance(x, SymInt):
            return strings.format_int(x)
        if isinstance(x, SymBool):
            return 'True' if x else 'False'
        return _b.str(*args, **kw)

    @staticmethod
    def join(sep, seq):
        return _b.str.join(sep, seq)


class SxDict(metaclass=_Meta):
    _sx_real = _b.dict

    @staticmethod
    def _sx_check(obj):
        return isinstance(obj, (_b.dict, SDict))

    def __new__(cls, *args, **kw):
        return SDict(*args, **kw)


class SxSet(metaclass=_Meta):
    _sx_real = _b.set

    @staticmethod
    def _sx_check(obj):
        return isinstance(obj, (_b.set, SSet))

    def __new__(cls, *args):
        return SSet(*args)


class SxBool(metaclass=_Meta):
    _sx_real = _b.bool

    @staticmethod
    def _sx_check(obj):
        return isinstance(obj, (_b.bool, SymBool))

    def __new__(cls, x=False):
        return _b.bool(x)


class SxFloat(metaclass=_Meta):
    _sx_real = _b.float

    @staticmethod
    def _sx_check(obj):
        return isinstance(obj, _b.float) or getattr(obj, '_sx_float', False)

    def __new__(cls, x=0.0):
        if getattr(x, '_sx_float', False):
            return x
        if isinstance(x, SymInt):
            from . import floats
            return floats.int_to_float(x)
        return _b.float(x)


def sx_type(*args):
    if len(args) != 1:
        return _b.type(*args)
    x = args[0]
    if isinstance(x, (_b.bool, SymBool)):
        return SxBool
    if isinstance(x, (_b.int, SymInt)):
        return SxInt
    if isinstance(x, (_b.bytes, SymBytes)) or hasattr(x, '_sx_view'):
        return SxBytes
    if isinstance(x, (_b.bytearray, SymByteArray)):
        return SxByteArray
    if isinstance(x, _b.str):
        return SxStr
    if isinstance(x, (_b.dict, SDict)):
        return SxDict
    if isinstance(x, (_b.set, SSet)):
        return SxSet
    if isinstance(x, _b.float) or getattr(x, '_sx_float', False):
        return SxFloat
    return _b.type(x)


def sx_len(x):
    if hasattr(x, '_sx_view'):
        return x.length()
    return _b.len(x)


class LazyRange:
    """range(n) for a symbolic n: iterates while (i < n) is feasible (one decision per iteration) instead of
    enumerating the values of n; the loop body usually ends the iteration (e.g. the stack runs empty)"""

    def __init__(self, n, cap=700):
        self.n, self.cap = n, cap

    def __iter__(self):
        i = 0
        while bool(i < self.n):
            if i >= self.cap:
                eng().fail(Unsupported, f'range(symbolic): more than {self.cap} iterations')
            yield i
            i += 1

    def __len__(self):
        return _conc(self.n)


def sx_range(*args):
    if len(args) == 1 and isinstance(args[0], SymInt):
        return LazyRange(args[0])
    return _b.range(*[_conc(a) for a in args])


def sx_abs(x):
    return _b.abs(x)


def sx_hash(x):
    return _b.hash(x)


def sx_in(a, b):
    """`a in b` (rewritten Compare nodes)"""
    if isinstance(b, (_b.dict, _b.set, _b.frozenset)):
        if isinstance(a, SymBytes):
            cands = [k for k in b if isinstance(k, _b.bytes) and len(k) == len(a)]
            return sym_or(*[key_eq(a, k) for k in cands]) if cands else False
        if isinstance(a, SymInt):
            cands = [k for k in b if isinstance(k, _b.int)]
            if len(cands) <= 64:
                return sym_or(*[mk_bool(a.t == _b.int(k)) for k in cands]) if cands else False
            a = eng().concretize(a.t, limit=512)
        return a in b
    if isinstance(b, (_b.tuple, _b.list)):
        if isinstance(a, (SymInt, SymBool, SymBytes)):
            return sym_or(*[key_eq(a, x) for x in b]) if b else False
        return a in b
    return a in b


def sx_notin(a, b):
    return sym_not(sx_in(a, b))


def sx_join(sep, seq):
    if isinstance(sep, _b.str):
        return sep.join(seq)
    if isinstance(sep, (_b.bytes, SymBytes)):
        seq = list(seq)
        if isinstance(sep, _b.bytes) and all(isinstance(p, (_b.bytes, _b.bytearray)) for p in seq):
            return sep.join(seq)
        return bytes_join(sep, seq)
    return sep.join(seq)


def sx_isnan(x):
    if getattr(x, '_sx_float', False):
        from . import floats
        return floats.isnan(x)
    import math
    return math.isnan(x)


def make_builtins():
    d = dict(_b.__dict__)
    d.update({
        'int': SxInt, 'bytes': SxBytes, 'bytearray': SxByteArray, 'str': SxStr, 'dict': SxDict,
        'set': SxSet, 'bool': SxBool, 'float': SxFloat,
        'type': sx_type, 'len': sx_len, 'range': sx_range,
        '__sx_in__': sx_in, '__sx_notin__': sx_notin, '__sx_join__': sx_join,
        '__sx_dict__': sx_dict_display, '__sx_star__': _STAR,
    })
    return d
