"""Load the real tapescript sources from the repository working tree into an instrumented package.

Every call of `load()` re-reads /repo/tapescript/*.py (so an edited tree is what gets analysed), applies a
small mechanical AST rewrite, and executes the code with the injected builtins of sxbuiltins.  The
result is a private package (default name `sxts`) whose modules are distinct from the normally imported
`tapescript` package (which stays untouched and is used for concrete replays).
"""
from __future__ import annotations
import ast
import hashlib
import os
import sys
import types
from . import sxbuiltins

REPO = os.environ.get('VERIF_REPO', '/repo')
MODULES = ['errors', 'interfaces', 'classes', 'functions', 'parsing', 'AMHL', 'version', 'tools']

_code_cache = {}


class Rewriter(ast.NodeTransformer):
    """T1: X.join(Y)            -> __sx_join__(X, Y)
       T2: {k: v, **m} in defs  -> __sx_dict__([(k, v), (__sx_star__, m)])
       T5: a in b / a not in b  -> __sx_in__(a, b) / __sx_notin__(a, b)
       M*: non-forking merges of side-effect-free conditionals (see merge rules below)"""

    def __init__(self, merge=True):
        self.depth = 0
        self.merge = merge
        self.counts = dict(join=0, dict=0, in_=0, ifexp=0, boolop=0, guard=0)

    def visit_FunctionDef(self, node):
        self.depth += 1
        self.generic_visit(node)
        self.depth -= 1
        return node

    visit_AsyncFunctionDef = visit_FunctionDef
    visit_Lambda = visit_FunctionDef

    def visit_Call(self, node):
        self.generic_visit(node)
        f = node.func
        if (isinstance(f, ast.Attribute) and f.attr == 'join' and len(node.args) == 1
                and not node.keywords):
            self.counts['join'] += 1
            return ast.copy_location(ast.Call(func=ast.Name('__sx_join__', ast.Load()),
                                              args=[f.value, node.args[0]], keywords=[]), node)
        return node

    def visit_Dict(self, node):
        self.generic_visit(node)
        if self.depth == 0:
            return node
        self.counts['dict'] += 1
        pairs = []
        for k, v in zip(node.keys, node.values):
            kk = ast.Name('__sx_star__', ast.Load()) if k is None else k
            pairs.append(ast.Tuple([kk, v], ast.Load()))
        return ast.copy_location(ast.Call(func=ast.Name('__sx_dict__', ast.Load()),
                                          args=[ast.List(pairs, ast.Load())], keywords=[]), node)

    def visit_Compare(self, node):
        self.generic_visit(node)
        if len(node.ops) == 1 and isinstance(node.ops[0], (ast.In, ast.NotIn)):
            self.counts['in_'] += 1
            name = '__sx_in__' if isinstance(node.ops[0], ast.In) else '__sx_notin__'
            return ast.copy_location(ast.Call(func=ast.Name(name, ast.Load()),
                                              args=[node.left, node.comparators[0]], keywords=[]), node)
        return node

    # ---- merges -------------------------------------------------------------------------------
    def visit_BoolOp(self, node):
        self.generic_visit(node)
        if self.merge and all(_pure(v) for v in node.values):
            self.counts['boolop'] += 1
            name = '__sx_and__' if isinstance(node.op, ast.And) else '__sx_or__'
            thunks = [ast.Lambda(args=_noargs(), body=v) for v in node.values]
            return ast.copy_location(ast.Call(func=ast.Name(name, ast.Load()), args=thunks, keywords=[]),
                                     node)
        return node

    def visit_IfExp(self, node):
        self.generic_visit(node)
        if self.merge and _pure(node.body) and _pure(node.orelse):
            self.counts['ifexp'] += 1
            return ast.copy_location(ast.Call(
                func=ast.Name('__sx_ite__', ast.Load()),
                args=[node.test, ast.Lambda(args=_noargs(), body=node.body),
                      ast.Lambda(args=_noargs(), body=node.orelse)], keywords=[]), node)
        return node

    def visit_If(self, node):
        self.generic_visit(node)
        # `if T: guard(C, msg)` with guard in sert/vert/tert/yert, no else, pure C  ->
        # guard(__sx_implies__(T, lambda: C), msg)
        if (self.merge and not node.orelse and len(node.body) == 1 and isinstance(node.body[0], ast.Expr)
                and isinstance(node.body[0].value, ast.Call)):
            c = node.body[0].value
            if (isinstance(c.func, ast.Name) and c.func.id in ('sert', 'vert', 'tert', 'yert')
                    and 1 <= len(c.args) <= 2 and not c.keywords and _pure(c.args[0])
                    and all(isinstance(a, ast.Constant) for a in c.args[1:])):
                self.counts['guard'] += 1
                imp = ast.Call(func=ast.Name('__sx_implies__', ast.Load()),
                               args=[node.test, ast.Lambda(args=_noargs(), body=c.args[0])], keywords=[])
                new = ast.Expr(ast.Call(func=c.func, args=[imp] + c.args[1:], keywords=[]))
                return ast.copy_location(new, node)
        return node


def _noargs():
    return ast.arguments(posonlyargs=[], args=[], kwonlyargs=[], kw_defaults=[], defaults=[])


_PURE_CALLS = {'__sx_in__', '__sx_notin__', 'len', 'type', '__sx_and__', '__sx_or__', '__sx_ite__'}


def _pure(n):
    """syntactically side-effect free (evaluation may still raise; the merge helpers fall back to the
    ordinary short-circuit order in that case)"""
    if isinstance(n, (ast.Constant, ast.Name)):
        return True
    if isinstance(n, ast.Attribute):
        return _pure(n.value)
    if isinstance(n, ast.Subscript):
        return _pure(n.value) and _pure(n.slice)
    if isinstance(n, ast.Slice):
        return all(x is None or _pure(x) for x in (n.lower, n.upper, n.step))
    if isinstance(n, ast.UnaryOp):
        return _pure(n.operand)
    if isinstance(n, ast.BinOp):
        return _pure(n.left) and _pure(n.right)
    if isinstance(n, ast.Compare):
        return _pure(n.left) and all(_pure(c) for c in n.comparators)
    if isinstance(n, ast.BoolOp):
        return all(_pure(v) for v in n.values)
    if isinstance(n, ast.Tuple):
        return all(_pure(v) for v in n.elts)
    if isinstance(n, ast.Lambda):
        return _pure(n.body)
    if isinstance(n, ast.Call):
        return (isinstance(n.func, ast.Name) and n.func.id in _PURE_CALLS and not n.keywords
                and all(_pure(a) for a in n.args))
    return False


def source_path(mod):
    return os.path.join(REPO, 'tapescript', mod + '.py')


def source_hashes():
    out = {}
    for m in MODULES:
        with open(source_path(m), 'rb') as f:
            out[m] = hashlib.sha256(f.read()).hexdigest()
    return out


def function_hashes(names):
    """sha256 of the source text of the named functions ('module:qualname') in the working tree"""
    out = {}
    trees = {}
    for name in names:
        mod, qual = name.split(':')
        if mod not in trees:
            src = open(source_path(mod)).read()
            trees[mod] = (src, ast.parse(src))
        src, tree = trees[mod]
        node = _find(tree.body, qual.split('.'))
        if node is None:
            out[name] = None
        else:
            seg = ast.get_source_segment(src, node)
            out[name] = hashlib.sha256(seg.encode()).hexdigest()[:16]
    return out


def _find(body, parts):
    for n in body:
        if isinstance(n, (ast.FunctionDef, ast.ClassDef)) and n.name == parts[0]:
            if len(parts) == 1:
                return n
            return _find(n.body, parts[1:])
        if isinstance(n, (ast.Try, ast.If)):
            for b in (n.body, getattr(n, 'orelse', []), *[h.body for h in getattr(n, 'handlers', [])]):
                r = _find(b, parts)
                if r is not None:
                    return r
    return None


def _compile(mod, merge):
    path = source_path(mod)
    st = os.stat(path)
    key = (path, st.st_mtime_ns, st.st_size, merge)
    hit = _code_cache.get(key)
    if hit is not None:
        return hit
    src = open(path).read()
    tree = ast.parse(src, filename=path)
    rw = Rewriter(merge=merge)
    tree = rw.visit(tree)
    ast.fix_missing_locations(tree)
    code = compile(tree, path, 'exec')
    _code_cache[key] = (code, rw.counts)
    return code, rw.counts


class Package:
    """one instrumented instance of the tapescript package"""

    def __init__(self, name):
        self.name = name
        self.mods = {}
        self.rewrite_counts = {}

    def __getattr__(self, m):
        try:
            return self.__dict__['mods'][m]
        except KeyError:
            raise AttributeError(m)


_pkg_counter = [0]


def load(name=None, merge=True, stubs=True):
    """execute the working-tree sources under the injected builtins; returns a Package"""
    from . import merges
    if name is None:
        _pkg_counter[0] += 1
        name = f'sxts{_pkg_counter[0]}'
    pkg = Package(name)
    pm = types.ModuleType(name)
    pm.__path__ = []
    pm.__package__ = name
    sys.modules[name] = pm
    bi = sxbuiltins.make_builtins()
    bi.update(merges.helpers())
    for m in MODULES:
        code, counts = _compile(m, merge)
        mod = types.ModuleType(f'{name}.{m}')
        mod.__dict__['__builtins__'] = bi
        mod.__package__ = name
        mod.__file__ = source_path(m)
        sys.modules[f'{name}.{m}'] = mod
        setattr(pm, m, mod)
        exec(code, mod.__dict__)
        pkg.mods[m] = mod
        pkg.rewrite_counts[m] = counts
    if stubs:
        from . import stubs as _stubs
        _stubs.install(pkg)
    return pkg


def unload(pkg):
    for k in [k for k in sys.modules if k == pkg.name or k.startswith(pkg.name + '.')]:
        del sys.modules[k]


_REGISTRIES = [('functions', 'opcodes'), ('functions', 'opcodes_inverse'), ('functions', 'nopcodes'),
               ('functions', 'nopcodes_inverse'), ('functions', 'opcode_aliases'), ('functions', '_contracts'),
               ('functions', '_contract_interfaces'), ('functions', '_plugins'), ('functions', 'flags'),
               ('parsing', 'additional_opcodes')]


def snapshot(pkg):
    """copy of the module-level registries (restored before every path of harnesses that mutate them)"""
    snap = {}
    for m, n in _REGISTRIES:
        d = getattr(pkg.mods[m], n)
        snap[(m, n)] = {k: (list(v) if isinstance(v, list) else v) for k, v in d.items()}
    return snap


def restore(pkg, snap):
    for (m, n), content in snap.items():
        d = getattr(pkg.mods[m], n)
        d.clear()
        for k, v in content.items():
            d[k] = list(v) if isinstance(v, list) else v
