"""Python float (IEEE binary64) and the float32 codec of struct '!f' on z3 FloatingPoint terms."""
from __future__ import annotations
import math
import struct as _struct
import z3
from .core import eng, SymInt, SymBool, mk_int, mk_bool, zi, to_z3bool, Unsupported, _isint
from .values import SymBytes, mk_bytes, items_of

F64 = z3.Float64()
F32 = z3.Float32()
RNE = z3.RNE()
RTZ = z3.RTZ()


def _abs_fp(name='fop'):
    e = eng()
    e.run_cache['abstracted'] = True
    return SymFloat(z3.FP(e.fresh_name(name), F64))


def _imprecise():
    from .core import ABSTRACT
    return ABSTRACT['floats']


def fpval(x):
    if isinstance(x, SymFloat):
        return x.t
    if isinstance(x, bool):
        x = int(x)
    if isinstance(x, int):
        return z3.FPVal(float(x), F64)
    if isinstance(x, float):
        if math.isnan(x):
            return z3.fpNaN(F64)
        if math.isinf(x):
            return z3.fpPlusInfinity(F64) if x > 0 else z3.fpMinusInfinity(F64)
        return z3.FPVal(x, F64)
    if isinstance(x, (SymInt, SymBool)):
        return int_to_float(x).t
    raise TypeError(f'fpval {type(x)}')


def _num(o):
    return isinstance(o, (int, float, SymFloat, SymInt, SymBool))


class SymFloat:
    _sx_float = True
    _sx_symbolic = True
    __slots__ = ('t', 'origin_int', 'maxmag')

    def __init__(self, t, origin_int=None, maxmag=None):
        self.t = t
        self.origin_int = origin_int     # set when the value is float(int) of a symbolic integer
        self.maxmag = maxmag             # finite values satisfy |v| < 2**maxmag (128 for float32 patterns)

    def __repr__(self):
        return f'SymFloat({self.t})'

    def __add__(self, o):
        if not _num(o): return NotImplemented
        if _imprecise(): return _abs_fp()
        return SymFloat(z3.fpAdd(RNE, self.t, fpval(o)))
    __radd__ = __add__

    def __sub__(self, o):
        if not _num(o): return NotImplemented
        if _imprecise(): return _abs_fp()
        return SymFloat(z3.fpSub(RNE, self.t, fpval(o)))

    def __rsub__(self, o):
        if not _num(o): return NotImplemented
        if _imprecise(): return _abs_fp()
        return SymFloat(z3.fpSub(RNE, fpval(o), self.t))

    def __mul__(self, o):
        if not _num(o): return NotImplemented
        if isinstance(o, float) and o == 1.0:
            return self
        return SymFloat(z3.fpMul(RNE, self.t, fpval(o)))
    __rmul__ = __mul__

    def __truediv__(self, o):
        if not _num(o): return NotImplemented
        d = fpval(o)
        if mk_bool(z3.fpIsZero(d)):
            raise ZeroDivisionError('float division by zero')
        if _imprecise(): return _abs_fp()
        return SymFloat(z3.fpDiv(RNE, self.t, d))

    def __rtruediv__(self, o):
        if not _num(o): return NotImplemented
        if mk_bool(z3.fpIsZero(self.t)):
            raise ZeroDivisionError('float division by zero')
        if _imprecise(): return _abs_fp()
        return SymFloat(z3.fpDiv(RNE, fpval(o), self.t))

    def __mod__(self, o):
        if not _num(o): return NotImplemented
        return float_mod(self.t, fpval(o))

    def __rmod__(self, o):
        if not _num(o): return NotImplemented
        return float_mod(fpval(o), self.t)

    def __neg__(self):
        return SymFloat(z3.fpNeg(self.t))

    def __abs__(self):
        return SymFloat(z3.fpAbs(self.t))

    def __lt__(self, o):
        if not _num(o): return NotImplemented
        return mk_bool(z3.fpLT(self.t, fpval(o)))

    def __le__(self, o):
        if not _num(o): return NotImplemented
        return mk_bool(z3.fpLEQ(self.t, fpval(o)))

    def __gt__(self, o):
        if not _num(o): return NotImplemented
        return mk_bool(z3.fpGT(self.t, fpval(o)))

    def __ge__(self, o):
        if not _num(o): return NotImplemented
        return mk_bool(z3.fpGEQ(self.t, fpval(o)))

    def __eq__(self, o):
        if not _num(o): return False
        return mk_bool(z3.fpEQ(self.t, fpval(o)))

    def __ne__(self, o):
        if not _num(o): return True
        return mk_bool(z3.Not(z3.fpEQ(self.t, fpval(o))))

    def __bool__(self):
        return not bool(mk_bool(z3.fpIsZero(self.t)))

    def __hash__(self):
        eng().fail(Unsupported, 'hash of symbolic float')

    def __float__(self):
        eng().fail(Unsupported, 'native float() of symbolic float')


def float_mod(x, y):
    """Python float %: ZeroDivisionError for a zero divisor; otherwise a contract stub (SMT-LIB has no
    fmod): NaN iff an operand is NaN or x is infinite; else finite with |r| < |y| (or r == x if y is
    infinite and signs agree), r == 0 or sign(r) == sign(y)."""
    e = eng()
    if mk_bool(z3.fpIsZero(y)):
        raise ZeroDivisionError('float modulo')
    e.run_cache['abstracted'] = True
    r = z3.FP(e.fresh_name('fmod'), F64)
    nan_case = z3.Or(z3.fpIsNaN(x), z3.fpIsNaN(y), z3.fpIsInf(x))
    e.add(z3.If(nan_case, z3.fpIsNaN(r),
                z3.And(z3.Not(z3.fpIsNaN(r)), z3.Not(z3.fpIsInf(r)),
                       z3.Or(z3.fpIsZero(r), z3.fpIsNegative(r) == z3.fpIsNegative(y)),
                       z3.Or(z3.fpLT(z3.fpAbs(r), z3.fpAbs(y)), z3.fpIsInf(y)))))
    return SymFloat(r)


def isnan(x):
    return mk_bool(z3.fpIsNaN(x.t))


def unpack_f32(b):
    """struct.unpack('!f', b)[0] for 4 symbolic bytes -> SymFloat (binary64 value of the binary32 pattern)"""
    items = items_of(b)
    if len(items) != 4:
        raise _struct.error('unpack requires a buffer of 4 bytes')
    bvs = [z3.Int2BV(zi(x), 8) if not isinstance(x, int) else z3.BitVecVal(x, 8) for x in items]
    bv = z3.Concat(*bvs)
    f32 = z3.fpBVToFP(bv, F32)
    return SymFloat(z3.fpFPToFP(RNE, f32, F64), maxmag=128)


def pack_f32(x):
    """struct.pack('!f', x): OverflowError if a finite double rounds to an infinite float32"""
    if isinstance(x, float):
        return _struct.pack('!f', x)
    if isinstance(x, (int,)) and not isinstance(x, bool):
        return _struct.pack('!f', x)
    if isinstance(x, (SymInt, SymBool)):
        x = int_to_float(x)
    if not isinstance(x, SymFloat):
        raise _struct.error('required argument is not a float')
    e = eng()
    from .stubs import CONFIG, uf_bytes
    if x.origin_int is not None and not CONFIG.float_precise:
        v = x.origin_int
        if mk_bool(z3.Or(v.t >= F32_OVERFLOW, v.t <= -F32_OVERFLOW)):
            raise OverflowError('float too large to pack with f format')
        e.run_cache['abstracted'] = True
        return uf_bytes('i2f32', 4, v.t)      # value bits abstract (deterministic function of the integer)
    f32 = z3.fpFPToFP(RNE, x.t, F32)
    if mk_bool(z3.And(z3.fpIsInf(f32), z3.Not(z3.fpIsInf(x.t)))):
        raise OverflowError('float too large to pack with f format')
    # bit pattern: a fresh bit-vector tied to the value (fp.to_ieee_bv is unspecified for NaN, as is
    # the NaN payload produced by the C conversion)
    bv = z3.BitVec(e.fresh_name('f32bits'), 32)
    e.add(z3.fpBVToFP(bv, F32) == f32)
    items = []
    for i in range(4):
        v = e.fresh_int('fb')
        e.add(z3.And(v >= 0, v <= 255, z3.Int2BV(v, 8) == z3.Extract(31 - 8 * i, 24 - 8 * i, bv)))
        items.append(v)
    return mk_bytes(items)


F64_OVERFLOW = 2 ** 1024 - 2 ** 970      # smallest magnitude that rounds (RNE) to infinity in binary64
F32_OVERFLOW = 2 ** 128 - 2 ** 103       # ... in binary32


def int_to_float(v):
    if isinstance(v, SymBool):
        v = SymInt(zi(v), 1)
    if isinstance(v, int):
        return SymFloat(z3.FPVal(float(v), F64))
    if mk_bool(z3.Or(v.t >= F64_OVERFLOW, v.t <= -F64_OVERFLOW)):
        raise OverflowError('int too large to convert to float')
    from .stubs import CONFIG
    if CONFIG.float_precise:
        return SymFloat(z3.fpRealToFP(RNE, z3.ToReal(v.t), F64), origin_int=v)
    e = eng()
    key = ('i2f', v.t.get_id())
    hit = e.run_cache.get(key)
    if hit is None or not hit[0].eq(v.t):
        f = z3.FP(e.fresh_name('i2f'), F64)
        e.add(z3.And(z3.Not(z3.fpIsNaN(f)), z3.Not(z3.fpIsInf(f))), simplified=True)
        hit = e.run_cache[key] = (v.t, f)
    return SymFloat(hit[1], origin_int=v)


def float_to_int(x):
    if mk_bool(z3.fpIsNaN(x.t)):
        raise ValueError('cannot convert float NaN to integer')
    if mk_bool(z3.fpIsInf(x.t)):
        raise OverflowError('cannot convert float infinity to integer')
    if _imprecise():
        e = eng()
        e.run_cache['abstracted'] = True
        mag = x.maxmag or 1024
        r = e.fresh_int('f2i')
        e.add(z3.And(r > -(2 ** mag), r < 2 ** mag))
        return SymInt(r, None, mag)
    r = z3.fpToReal(z3.fpRoundToIntegral(RTZ, x.t))
    return mk_int(z3.ToInt(r), None, x.maxmag)


def model_float(model, v):
    r = model.eval(v.t, model_completion=True)
    try:
        if z3.is_fprm_value(r):
            return str(r)
        if r.isNaN():
            return float('nan')
        if r.isInf():
            return float('-inf') if r.isNegative() else float('inf')
        s = r.as_string()
        return float(eval(s.replace('*(2**', '*(2.0**'))) if '*(2**' in s else float(s)
    except Exception:
        return str(r)
