"""Symbolic bytes / bytearray and the int<->bytes models."""
from __future__ import annotations
import z3
from .core import (eng, SymInt, SymBool, mk_int, mk_bool, zi, to_z3bool, Unsupported, BoundExceeded,
                   _isint, _conc, sym_and)


def norm_item(x):
    """byte item: python int 0..255 or z3 Int term"""
    if isinstance(x, SymInt):
        t = x.t
        return t.as_long() if z3.is_int_value(t) else t
    if isinstance(x, SymBool):
        return z3.If(x.t, 1, 0)
    if isinstance(x, int):
        return x
    if z3.is_expr(x):
        return x.as_long() if z3.is_int_value(x) else x
    raise TypeError(f'byte item {type(x)}')


def mk_bytes(items):
    items = [x if type(x) is int else norm_item(x) for x in items]
    for x in items:
        if type(x) is not int:
            return SymBytes(items)
    return bytes(items)


def _mk_norm(items):
    """items already normalised (ints or non-numeral terms)"""
    for x in items:
        if type(x) is not int:
            return SymBytes(items)
    return bytes(items)


def items_of(v):
    if isinstance(v, (bytes, bytearray)):
        return list(v)
    if isinstance(v, (SymBytes, SymByteArray)):
        return list(v.b)
    raise TypeError(f'not bytes-like: {type(v)}')


def is_byteslike(v):
    return isinstance(v, (bytes, SymBytes))


def item_val(x):
    return x if isinstance(x, int) else SymInt(x, 8)


def bytes_eq(a, b):
    """non-forking equality of two bytes-like values -> bool | SymBool"""
    ia, ib = items_of(a), items_of(b)
    if len(ia) != len(ib):
        return False
    ts = []
    for x, y in zip(ia, ib):
        if x is y:
            continue
        if isinstance(x, int) and isinstance(y, int):
            if x != y:
                return False
        else:
            ts.append(zi(x) == zi(y))
    if not ts:
        return True
    return mk_bool(z3.And(*ts))


class SymBytes:
    """immutable bytes of concrete length whose items are ints or z3 Int terms in 0..255"""
    __slots__ = ('b',)
    _sx_symbolic = True

    def __init__(self, items):
        self.b = tuple(items)

    def __repr__(self):
        return f'SymBytes(len={len(self.b)})'

    def __len__(self):
        return len(self.b)

    def __bool__(self):
        return len(self.b) > 0

    def __iter__(self):
        return iter([item_val(x) for x in self.b])

    def __getitem__(self, k):
        if isinstance(k, slice):
            k = slice(_conc(k.start) if k.start is not None else None,
                      _conc(k.stop) if k.stop is not None else None,
                      _conc(k.step) if k.step is not None else None)
            return _mk_norm(self.b[k])
        k = _conc(k)
        return item_val(self.b[k])

    def __add__(self, o):
        if not isinstance(o, (bytes, bytearray, SymBytes, SymByteArray)):
            return NotImplemented
        return _mk_norm(list(self.b) + items_of(o))

    def __radd__(self, o):
        if not isinstance(o, (bytes, bytearray, SymBytes, SymByteArray)):
            return NotImplemented
        return _mk_norm(items_of(o) + list(self.b))

    def __mul__(self, n):
        n = _conc(n)
        return mk_bytes(list(self.b) * n)
    __rmul__ = __mul__

    def __eq__(self, o):
        if not isinstance(o, (bytes, SymBytes)):
            return False
        return bytes_eq(self, o)

    def __ne__(self, o):
        r = self.__eq__(o)
        if isinstance(r, SymBool):
            return mk_bool(z3.Not(r.t))
        return not r

    def __hash__(self):
        # native dict / set lookup with a symbolic key: only sound after full concretisation
        nsym = sum(1 for x in self.b if not isinstance(x, int))
        if nsym > 2:
            eng().fail(Unsupported, f'hash of SymBytes with {nsym} symbolic bytes (native dict/set key)')
        return hash(self.concretize())

    def concretize(self):
        return bytes(x if isinstance(x, int) else eng().concretize(x, limit=256) for x in self.b)

    def __contains__(self, x):
        if _isint(x):
            return bool(mk_bool(z3.Or(*[zi(y) == zi(x) for y in self.b]))) if self.b else False
        eng().fail(Unsupported, 'subsequence test on SymBytes')

    def hex(self, *a):
        from . import strings
        return strings.hex_of(self)

    def rjust(self, width, fill=b' '):
        pad = max(0, width - len(self.b))
        return mk_bytes(list(items_of(fill)) * pad + list(self.b)) if pad else self

    def ljust(self, width, fill=b' '):
        pad = max(0, width - len(self.b))
        return mk_bytes(list(self.b) + list(items_of(fill)) * pad) if pad else self

    def zfill(self, width):
        return self.rjust(width, b'0')

    def decode(self, enc='utf-8', errors='strict'):
        from . import strings
        return strings.decode_utf8(self)

    def __bytes__(self):
        eng().fail(Unsupported, 'native bytes() of SymBytes')

    def startswith(self, p):
        p = items_of(p)
        if len(p) > len(self.b):
            return False
        return bytes_eq(mk_bytes(self.b[:len(p)]), mk_bytes(p))

    def join(self, seq):
        return bytes_join(self, seq)


class SymByteArray:
    """mutable counterpart (always used for bytearray() inside the analysed code)"""
    _sx_symbolic = True

    def __init__(self, items=()):
        self.b = [norm_item(x) for x in items]

    def __len__(self):
        return len(self.b)

    def __iter__(self):
        return iter([item_val(x) for x in self.b])

    def __getitem__(self, k):
        if isinstance(k, slice):
            return SymByteArray(self.b[k])
        return item_val(self.b[_conc(k)])

    def __setitem__(self, k, v):
        if isinstance(k, slice):
            eng().fail(Unsupported, 'bytearray slice assignment')
        self.b[_conc(k)] = check_byte(v)

    def append(self, v):
        self.b.append(check_byte(v))

    def extend(self, o):
        self.b.extend(items_of(o))

    def __add__(self, o):
        return SymByteArray(self.b + items_of(o))

    def __iadd__(self, o):
        self.b.extend(items_of(o))
        return self

    def __eq__(self, o):
        if not isinstance(o, (bytes, bytearray, SymBytes, SymByteArray)):
            return False
        return bytes_eq(self, o)

    def hex(self):
        return mk_bytes(self.b).hex()

    __hash__ = None


def check_byte(v):
    if isinstance(v, SymBool):
        v = SymInt(zi(v), 1)
    if isinstance(v, SymInt):
        if v.width is not None and v.width <= 8:
            return norm_item(v)
        ok = mk_bool(z3.And(v.t >= 0, v.t <= 255))
        if not ok:
            raise ValueError('byte must be in range(0, 256)')
        return norm_item(v)
    if not isinstance(v, int):
        raise TypeError('an integer is required')
    if not 0 <= v <= 255:
        raise ValueError('byte must be in range(0, 256)')
    return v


def bytes_join(sep, seq):
    out = []
    seps = items_of(sep)
    first = True
    for part in seq:
        if not isinstance(part, (bytes, bytearray, SymBytes, SymByteArray)):
            raise TypeError(f'sequence item: expected a bytes-like object, {type(part).__name__} found')
        if not first:
            out.extend(seps)
        out.extend(items_of(part))
        first = False
    return mk_bytes(out)


def fresh_bytes(name, n):
    """n fresh symbolic bytes registered as a harness input"""
    e = eng()
    hit = e.persist.get(('bytes', name, n))
    if hit is None:
        items = [z3.Int(f'{name}[{i}]') for i in range(n)]
        rng = z3.And(*[z3.And(v >= 0, v <= 255) for v in items]) if n else None
        hit = e.persist[('bytes', name, n)] = (items, rng)
    items, rng = hit
    if rng is not None:
        e.add(rng, simplified=True)
    val = SymBytes(items) if n else b''
    e.inputs[name] = val
    return val


def fresh_int(name, lo=None, hi=None):
    e = eng()
    v = z3.Int(name)
    if lo is not None:
        e.add(v >= lo)
    if hi is not None:
        e.add(v <= hi)
    width = None
    if lo is not None and lo >= 0 and hi is not None:
        width = max(int(hi).bit_length(), 1)
    val = SymInt(v, width)
    e.inputs[name] = val
    return val


def fresh_byte(name):
    """symbolic byte built from 8 Bool inputs (bit operations on it need no extra variables)"""
    from .core import register_bits
    e = eng()
    hit = e.persist.get(('byte', name))
    if hit is None:
        bs = [z3.Bool(f'{name}.bit{i}') for i in range(8)]
        hit = e.persist[('byte', name)] = (bs, z3.Sum([z3.If(b, 1 << i, 0) for i, b in enumerate(bs)]))
    bs = hit[0]
    val = SymInt(hit[1], 8)
    register_bits(val, bs)
    e.inputs[name] = val
    return val


def fresh_bool(name):
    e = eng()
    val = SymBool(z3.Bool(name))
    e.inputs[name] = val
    return val


# ---------------------------------------------------------------------------- int <-> bytes
def from_bytes_model(b, byteorder='big', *, signed=False):
    items = items_of(b) if not isinstance(b, (list, tuple)) else [norm_item(x) for x in b]
    if byteorder == 'little':
        items = items[::-1]
    elif byteorder != 'big':
        raise ValueError("byteorder must be either 'little' or 'big'")
    n = len(items)
    if all(isinstance(x, int) for x in items):
        return int.from_bytes(bytes(items), 'big', signed=signed)
    e = eng()
    ck = (signed, tuple(x if type(x) is int else -1 - x.get_id() for x in items))
    cache = e.persist.setdefault('from_bytes', {})
    hit = cache.get(ck)
    if hit is not None:
        return SymInt(hit[0], hit[1], 8 * n, None if signed or any(type(x) is int and x != 0 for x in items)
                      else [x for x in items if type(x) is not int])
    res = _from_bytes_build(items, n, signed)
    if len(cache) > 20000:
        cache.clear()
    cache[ck] = (res.t, res.width, items)      # items kept alive so that ids stay valid
    if not signed:
        res.zero_parts = [x for x in items if type(x) is not int] if all(type(x) is not int or x == 0 for x in items) else None
    return res


def _from_bytes_build(items, n, signed):
    terms = []
    for i, x in enumerate(items):
        w = 256 ** (n - 1 - i)
        if isinstance(x, int):
            if x:
                terms.append(z3.IntVal(x * w))
        else:
            terms.append(x * w if w != 1 else x)
    t = z3.Sum(terms) if len(terms) > 1 else terms[0]
    if signed:
        t = z3.If(zi(items[0]) >= 128, t - 256 ** n, t)
        return SymInt(t, None, 8 * n)
    return SymInt(t, 8 * n)


def int_to_bytes_model(v, length=1, byteorder='big', signed=False):
    e = eng()
    length = _conc(length)
    if length < 0:
        raise ValueError('length argument must be non-negative')
    if isinstance(v, SymBool):
        v = SymInt(zi(v), 1)
    if isinstance(v, int):
        return v.to_bytes(length, byteorder, signed=signed)
    if not signed and v.width is not None and v.width <= 8 * length:
        pass                                   # known to fit: no overflow decisions
    elif signed:
        lo, hi = -(256 ** length) // 2, (256 ** length) // 2
        if not mk_bool(z3.And(v.t >= lo, v.t < hi)):
            raise OverflowError('int too big to convert')
        v = mk_int(z3.If(v.t < 0, v.t + 256 ** length, v.t))
        if isinstance(v, int):
            return v.to_bytes(length, byteorder)
    else:
        if mk_bool(v.t < 0):
            raise OverflowError("can't convert negative int to unsigned")
        if not mk_bool(v.t < 256 ** length):
            raise OverflowError('int too big to convert')
    if length == 1 and v.width is not None and v.width <= 8:
        return SymBytes([v.t])                 # already a byte: no fresh digit needed
    # fresh digits + one linear equation (div/mod terms make large widths intractable)
    key = ('digits', v.t.get_id(), length)
    hit = e.run_cache.get(key)
    if hit is not None and hit[0].eq(v.t):
        ds = hit[1]
    else:
        from .core import ABSTRACT
        if ABSTRACT.get('uf_digits'):
            # digits as an uninterpreted function of the value: equal values have equal digits by congruence,
            # the solver does not have to re-derive uniqueness of the base-256 representation
            f = z3.Function(f'Dig{length}', z3.IntSort(), z3.IntSort(), z3.IntSort())
            ds = [f(v.t, z3.IntVal(i)) for i in range(length)]
        else:
            ds = [e.fresh_int('d') for _ in range(length)]
        e.add(z3.And(*[z3.And(d >= 0, d <= 255) for d in ds]), simplified=True)
        if v.width is not None and v.width < 8 * length and not signed:
            # redundant lemma (helps the solver): digits above the known width are zero / bounded
            hi = []
            for i, d in enumerate(ds):                 # ds is big-endian: ds[0] is the most significant digit
                pos = 8 * (length - 1 - i)
                if pos >= v.width:
                    hi.append(d == 0)
                elif pos + 8 > v.width:
                    hi.append(d < (1 << (v.width - pos)))
            if hi:
                e.add(z3.And(*hi), simplified=True)
        if ABSTRACT['digits'] and length >= 8:
            e.run_cache['abstracted'] = True
        else:
            e.add(v.t == z3.Sum([d * (256 ** (length - 1 - i)) for i, d in enumerate(ds)]) if length > 1
                  else v.t == ds[0])
        e.run_cache[key] = (v.t, ds)
    items = ds if byteorder == 'big' else ds[::-1]
    return mk_bytes(items)


def ite_bytes(c, a, b):
    """non-forking conditional between two bytes-likes of equal length"""
    if not isinstance(c, SymBool):
        return a if c else b
    ia, ib = items_of(a), items_of(b)
    if len(ia) != len(ib):
        raise TypeError('ite_bytes: different lengths')
    return mk_bytes([x if (isinstance(x, int) and isinstance(y, int) and x == y)
                     else z3.If(c.t, zi(x), zi(y)) for x, y in zip(ia, ib)])


class SymSized:
    """a bytes value of symbolic length and unspecified content (result of a stubbed allocation whose size is
    not worth enumerating); supports only len() (through the injected len) and type()"""
    _sx_symbolic = True
    _sx_view = True

    def __init__(self, length):
        self._len = length

    def length(self):
        return self._len

    def model_value(self, model):
        n = model.eval(zi(self._len), model_completion=True).as_long()
        return {'bytes_of_length': n}

    def __len__(self):
        return int(self._len)
