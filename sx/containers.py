"""Container models: SDict (dict with possibly symbolic keys), SDeque (collections.deque with maxlen),
SSet (set with symbolic element equality)."""
from __future__ import annotations
import z3
from .core import (eng, SymInt, SymBool, mk_int, mk_bool, zi, to_z3bool, Unsupported, _isint, _conc,
                   sym_and, sym_not)
from .values import SymBytes, SymByteArray, bytes_eq, is_byteslike

_MISSING = object()


def key_eq(a, b):
    """Python dict key equality, non-forking: bool | SymBool"""
    if is_byteslike(a) and is_byteslike(b):
        return bytes_eq(a, b)
    if is_byteslike(a) or is_byteslike(b):
        return False
    if isinstance(a, str) or isinstance(b, str):
        if not (isinstance(a, str) and isinstance(b, str)):
            return False
        from . import strings
        return strings.str_eq(a, b)
    if _isint(a) and _isint(b):
        if isinstance(a, int) and isinstance(b, int):
            return a == b
        return mk_bool(zi(a) == zi(b))
    try:
        return bool(a == b)
    except Exception:
        return a is b


def key_type(k):
    if is_byteslike(k):
        return 'bytes'
    if isinstance(k, str):
        return 'str'
    if isinstance(k, (bool, SymBool)):
        return 'bool'
    if _isint(k):
        return 'int'
    return type(k).__name__


class SDict:
    """dict model: insertion-ordered association list; key lookups with symbolic keys fork on the
    equality with each candidate entry.  Every write and delete is logged (key type, key) in
    `self.wlog` (used by C08/C19)."""
    _sx_symbolic = True
    _sx_dict = True

    def __init__(self, init=None, **kw):
        self.entries = []      # [key, value]
        self.wlog = []
        self.rlog = []
        if init is not None:
            self.update(init)
            self.wlog = []
        for k, v in kw.items():
            self._set(k, v, log=False)

    # -- internals
    def _find(self, k):
        for i, (k2, _) in enumerate(self.entries):
            r = key_eq(k, k2)
            if r is True or (r is not False and bool(r)):
                return i
        return -1

    def _set(self, k, v, log=True):
        i = self._find(k)
        if log:
            self.wlog.append(('set', key_type(k), k))
        if i >= 0:
            self.entries[i][1] = v
        else:
            self.entries.append([k, v])

    # -- mapping protocol
    def __contains__(self, k):
        self.rlog.append(('in', key_type(k), k))
        return self._find(k) >= 0

    def __getitem__(self, k):
        self.rlog.append(('get', key_type(k), k))
        i = self._find(k)
        if i < 0:
            raise KeyError(k)
        self.rlog.append(('hit', key_type(self.entries[i][0]), self.entries[i][0]))
        return self.entries[i][1]

    def __setitem__(self, k, v):
        self._set(k, v)

    def __delitem__(self, k):
        i = self._find(k)
        self.wlog.append(('del', key_type(k), k))
        if i < 0:
            raise KeyError(k)
        del self.entries[i]

    def get(self, k, default=None):
        self.rlog.append(('get', key_type(k), k))
        i = self._find(k)
        return default if i < 0 else self.entries[i][1]

    def pop(self, k, default=_MISSING):
        i = self._find(k)
        self.wlog.append(('del', key_type(k), k))
        if i < 0:
            if default is _MISSING:
                raise KeyError(k)
            return default
        v = self.entries[i][1]
        del self.entries[i]
        return v

    def setdefault(self, k, default=None):
        i = self._find(k)
        if i < 0:
            self._set(k, default)
            return default
        return self.entries[i][1]

    def update(self, other=(), **kw):
        if hasattr(other, 'keys'):
            for k in list(other.keys()):
                self._set(k, other[k])
        else:
            for k, v in other:
                self._set(k, v)
        for k, v in kw.items():
            self._set(k, v)

    def keys(self):
        return [k for k, _ in self.entries]

    def values(self):
        return [v for _, v in self.entries]

    def items(self):
        return [(k, v) for k, v in self.entries]

    def __iter__(self):
        return iter(self.keys())

    def __len__(self):
        return len(self.entries)

    def __bool__(self):
        return len(self.entries) > 0

    def copy(self):
        d = SDict()
        d.entries = [[k, v] for k, v in self.entries]
        return d

    def clear(self):
        for k, _ in self.entries:
            self.wlog.append(('del', key_type(k), k))
        self.entries = []

    def __eq__(self, o):
        if not hasattr(o, 'keys'):
            return False
        if len(o) != len(self):
            return False
        for k, v in self.entries:
            if k not in o:
                return False
            if not (o[k] == v):
                return False
        return True

    __hash__ = None

    def __repr__(self):
        return f'SDict({self.entries!r})'


def sx_dict_display(pairs):
    """target of the rewritten dict displays {k: v, **m} inside function bodies"""
    d = SDict()
    for k, v in pairs:
        if k is _STAR:
            if hasattr(v, 'keys'):
                for kk in list(v.keys()):
                    d._set(kk, v[kk], log=False)
            else:
                raise TypeError(f"'{type(v).__name__}' object is not a mapping")
        else:
            d._set(k, v, log=False)
    return d


class _Star:
    def __repr__(self):
        return '**'


_STAR = _Star()


class SDeque:
    """collections.deque(maxlen=...) with concrete length, symbolic items and possibly symbolic maxlen.
    The real deque silently drops an item from the other end when full: that is logged as an event
    ('DEQUE_DROP') in the engine log so that properties can assert it never happens."""
    _sx_symbolic = True

    def __init__(self, iterable=(), maxlen=None):
        self.items = list(iterable)
        self.maxlen = maxlen
        if maxlen is not None and not isinstance(maxlen, (SymInt,)):
            if not isinstance(maxlen, int):
                raise TypeError('an integer is required')
            if maxlen < 0:
                raise ValueError('maxlen must be non-negative')
        self.high_water = len(self.items)

    def _full(self):
        if self.maxlen is None:
            return False
        return bool(len(self.items) >= self.maxlen)

    def append(self, x):
        if self._full():
            eng().log.append(('DEQUE_DROP', len(self.items)))
            if len(self.items):
                self.items.pop(0)
            if isinstance(self.maxlen, int) and self.maxlen == 0:
                return
            if bool(self.maxlen == 0):
                return
        self.items.append(x)
        self.high_water = max(self.high_water, len(self.items))

    def appendleft(self, x):
        if self._full():
            eng().log.append(('DEQUE_DROP', len(self.items)))
            if len(self.items):
                self.items.pop()
        self.items.insert(0, x)

    def pop(self):
        if not self.items:
            raise IndexError('pop from an empty deque')
        return self.items.pop()

    def popleft(self):
        if not self.items:
            raise IndexError('pop from an empty deque')
        return self.items.pop(0)

    def __len__(self):
        return len(self.items)

    def __iter__(self):
        return iter(list(self.items))

    def __getitem__(self, i):
        i = _conc(i)
        if not -len(self.items) <= i < len(self.items):
            raise IndexError('deque index out of range')
        return self.items[i]

    def __setitem__(self, i, v):
        i = _conc(i)
        if not -len(self.items) <= i < len(self.items):
            raise IndexError('deque index out of range')
        self.items[i] = v

    def clear(self):
        self.items = []

    def reverse(self):
        self.items.reverse()

    # the rest of the deque interface (an implementation may use any of it)
    def extend(self, iterable):
        for x in list(iterable):
            self.append(x)

    def extendleft(self, iterable):
        for x in list(iterable):
            self.appendleft(x)

    def insert(self, i, x):
        if self._full():
            raise IndexError('deque already at its maximum size')
        self.items.insert(_conc(i), x)
        self.high_water = max(self.high_water, len(self.items))

    def remove(self, x):
        for i, y in enumerate(self.items):
            r = key_eq(x, y)
            if r is True or (r is not False and bool(r)):
                del self.items[i]
                return
        raise ValueError('deque.remove(x): x not in deque')

    def rotate(self, n=1):
        n = _conc(n)
        if self.items:
            n %= len(self.items)
            self.items = self.items[-n:] + self.items[:-n] if n else self.items

    def count(self, x):
        return sum(1 for y in self.items if (lambda r: r is True or (r is not False and bool(r)))(key_eq(x, y)))

    def index(self, x, *a):
        for i, y in enumerate(self.items):
            r = key_eq(x, y)
            if r is True or (r is not False and bool(r)):
                return i
        raise ValueError('not in deque')

    def copy(self):
        return SDeque(self.items, self.maxlen)

    __copy__ = copy

    def __delitem__(self, i):
        i = _conc(i)
        if not -len(self.items) <= i < len(self.items):
            raise IndexError('deque index out of range')
        del self.items[i]

    def __contains__(self, x):
        return self.count(x) > 0

    def __reversed__(self):
        return iter(list(reversed(self.items)))

    def __bool__(self):
        return len(self.items) > 0

    def __repr__(self):
        return f'SDeque({self.items!r}, maxlen={self.maxlen!r})'


class SSet:
    """set with symbolic element equality (forks on equality with each present element)"""
    _sx_symbolic = True

    def __init__(self, iterable=()):
        self.items = []
        for x in iterable:
            self.add(x)

    def _find(self, x):
        for i, y in enumerate(self.items):
            r = key_eq(x, y)
            if r is True or (r is not False and bool(r)):
                return i
        return -1

    def add(self, x):
        if self._find(x) < 0:
            self.items.append(x)

    def discard(self, x):
        i = self._find(x)
        if i >= 0:
            del self.items[i]

    def remove(self, x):
        i = self._find(x)
        if i < 0:
            raise KeyError(x)
        del self.items[i]

    def __contains__(self, x):
        return self._find(x) >= 0

    def __len__(self):
        return len(self.items)

    def __iter__(self):
        return iter(list(self.items))

    def __bool__(self):
        return len(self.items) > 0
