"""Generic-group model of the Ed25519 primitives used by tapescript (DESIGN.md 2.4).

A valid point P (32 bytes, read as a big-endian integer) has a discrete logarithm dlog(P) in [0, L);
enc: [0, L) -> 32-byte strings is its inverse.  Scalars are the little-endian integers of their 32 bytes.
  base_mult(s)            = enc(s mod L)                    (RuntimeError if s = 0 mod L, as libsodium)
  point_add/sub(P, Q)     = enc(dlog P +- dlog Q mod L)     (error for invalid points)
  scalar_add/sub(a, b)    = (a +- b) mod L
  scalar_mul(c, x)        = M(c mod L, x mod L)             M uninterpreted, range [0, L)
  scalar_mult_point(c, P) = enc(M(c mod L, dlog P))         same M: c*(x*G) = (c*x)*G
  scalar_reduce(h)        = h mod L
Axioms are instantiated per application (no quantifiers):
  dlog(enc(k)) = k, validpt(enc(k));  validpt(P) -> enc(dlog P) = P, 0 <= dlog P < L.
Outside this model: non-canonical encodings, small-order points, cofactor, M's algebraic laws."""
from __future__ import annotations
import z3
import nacl.exceptions
from .core import eng, SymInt, SymBool, mk_int, mk_bool, zi, to_z3bool, Unsupported
from .values import (SymBytes, mk_bytes, items_of, from_bytes_model, int_to_bytes_model, is_byteslike,
                     bytes_eq)

L = 2 ** 252 + 27742317777372353535851937790883648493

_enc = z3.Function('enc', z3.IntSort(), z3.IntSort())
_dlog = z3.Function('dlog', z3.IntSort(), z3.IntSort())
_validpt = z3.Function('validpt', z3.IntSort(), z3.BoolSort())
_decodable = z3.Function('decodable', z3.IntSort(), z3.BoolSort())
_M = z3.Function('M', z3.IntSort(), z3.IntSort(), z3.IntSort())


def _bytes32(x, what):
    if not is_byteslike(x) or len(x) != 32:
        raise nacl.exceptions.TypeError(f'{what} must be a 32 bytes long bytes sequence')
    return x


def modL(t):
    """t mod L with fresh quotient/remainder (t: z3 Int term or int)"""
    eng().run_cache['stubbed'] = True
    if isinstance(t, int):
        return t % L
    t = z3.simplify(t)
    if z3.is_int_value(t):
        return t.as_long() % L
    e = eng()
    rem = e.run_cache.setdefault('modL_remainders', {})
    if t.get_id() in rem and rem[t.get_id()].eq(t):
        return t                               # already a remainder mod L
    key = ('modL', t.get_id())
    hit = e.run_cache.get(key)
    if hit is not None and hit[0].eq(t):
        return hit[1]
    # canonical form modulo L: replace every known remainder by the expression it is the remainder of and normalise;
    # two arguments with the same canonical form are congruent mod L and get the same remainder variable, so chains
    # like ((a mod L) + b) mod L and (a + b) mod L are merged syntactically (no solver work)
    canon_of = e.run_cache.setdefault('modL_canon_of', {})
    subs = [(rv, cv) for (rv, cv) in canon_of.values()]
    canon = z3.simplify(z3.substitute(t, *subs)) if subs else z3.simplify(t)
    by_canon = e.run_cache.setdefault('modL_by_canon', {})
    hit2 = by_canon.get(canon.get_id())
    if hit2 is not None and hit2[0].eq(canon):
        r = hit2[1]
        q = e.fresh_int('qL')
        e.add(t == q * L + r)                      # still a fact about this particular argument
        e.run_cache[key] = (t, r)
        return r
    q = e.fresh_int('qL')
    r = e.fresh_int('rL')
    e.add(z3.And(t == q * L + r, r >= 0, r < L))
    e.run_cache[key] = (t, r)
    rem[r.get_id()] = r
    canon_of[r.get_id()] = (r, canon)
    by_canon[canon.get_id()] = (canon, r)
    return r


def _wrap256(t):
    """t mod 2^256 for 0 <= t < 2^257 (libsodium adds scalars in 32 bytes and drops the carry)"""
    if isinstance(t, int):
        return t % 2 ** 256
    e = eng()
    c = e.fresh_int('carry')
    e.add(z3.And(c >= 0, c <= 1, t - c * 2 ** 256 >= 0, t - c * 2 ** 256 < 2 ** 256))
    return t - c * 2 ** 256


def _key(b):
    """identity of a byte string by the identity of its items: survives concatenation + slicing"""
    if isinstance(b, SymBytes):
        return tuple(map(id, b.b))
    return ('obj', id(b))


class _ByItems(dict):
    """registry keyed by item identity; values are (bytes, payload...) tuples, `get` checks nothing else"""


def _src(e):
    return e.run_cache.setdefault('alg_src', {})


def scalar_int(s):
    """little-endian integer of scalar bytes; bytes produced by scalar_bytes map back to their integer term
    directly (no digit round trip for the solver)"""
    e = eng()
    hit = _src(e).get(_key(s))
    if hit is not None:
        return hit[1]
    if isinstance(s, SymBytes) and len(s) == 32 and not isinstance(s.b[31], int):
        # clamp_scalar(reduced scalar): clearing bit 255 of a value < 2^253 is the identity
        top = s.b[31]
        rems = e.run_cache.get('modL_remainders', {})
        for key, (rb, rt) in list(_src(e).items()):
            if not isinstance(rb, SymBytes) or len(rb) != 32 or isinstance(rt, int) or rt.get_id() not in rems:
                continue
            if isinstance(rb.b[31], int) or not all(s.b[i] is rb.b[i] for i in range(31)):
                continue
            c = e.run_cache.get(('bitop', 'and', rb.b[31].get_id(), 0x7f))
            if c is not None and isinstance(c[1], SymInt) and c[1].t.eq(top):
                _src(e)[_key(s)] = (s, rt)
                return rt
    return zi(from_bytes_model(s, 'little'))


def _implied_equal(a, b, timeout_ms=5000):
    """True if the path condition implies a == b (quick solver query; used to merge equal values so that later
    byte-wise comparisons are syntactic)"""
    e = eng()
    if a is b or (z3.is_expr(a) and z3.is_expr(b) and a.eq(b)):
        return True
    # answers are cached across the re-executions of one exploration (a time-limited query must give the same
    # answer when a path prefix is replayed, otherwise the replay would diverge)
    key = ('implied_eq', a.get_id() if z3.is_expr(a) else a, b.get_id() if z3.is_expr(b) else b, e.nconstraints)
    hit = e.persist.get(key)
    if hit is not None:
        return hit[0]
    e.set_timeout(timeout_ms)
    try:
        r = e._check(a != b)
    finally:
        e.set_timeout()
    e.persist[key] = (r == z3.unsat, a, b)
    return r == z3.unsat


def _implied_different(a, b, timeout_ms=5000):
    e = eng()
    key = ('implied_ne', a.get_id() if z3.is_expr(a) else a, b.get_id() if z3.is_expr(b) else b, e.nconstraints)
    hit = e.persist.get(key)
    if hit is not None:
        return hit[0]
    e.set_timeout(timeout_ms)
    try:
        r = e._check(a == b)
    finally:
        e.set_timeout()
    e.persist[key] = (r == z3.unsat, a, b)
    return r == z3.unsat


def register_scalar(b):
    """harness helper: a 32-byte scalar string whose value later results should be recognised as"""
    e = eng()
    _src(e)[_key(b)] = (b, zi(from_bytes_model(b, 'little')))


def scalar_bytes(t):
    if isinstance(t, int):
        return t.to_bytes(32, 'little')
    e = eng()
    out = int_to_bytes_model(SymInt(t, 253), 32, 'little')
    _src(e)[_key(out)] = (out, t)
    return out


def point_int(p):
    hit = _src(eng()).get(_key(p))
    if hit is not None:
        return hit[1]
    return zi(from_bytes_model(p, 'big'))


def _known(e):
    return e.run_cache.setdefault('alg_known_points', {})


def mark_point(pbytes, valid=True):
    """harness helper: declare an input point decodable (and valid, i.e. not the identity)"""
    e = eng()
    pi = point_int(pbytes)
    e.add(z3.And(_decodable(pi), _validpt(pi)) if valid else _decodable(pi))
    _known(e)[_key(pbytes)] = (pbytes, valid)


def nondegenerate():
    from .stubs import CONFIG
    return getattr(CONFIG, 'assume_nondegenerate', False)


def enc_point(k):
    """32 bytes of the point with discrete log k (k: term already reduced mod L)"""
    e = eng()
    kt = zi(k)
    from .stubs import CONFIG
    if getattr(CONFIG, 'alg_merge_points', False):
        # eager merging: the same group element as an earlier result gets the same bytes (one small query per pair)
        for (pb, pk) in e.run_cache.get('alg_points', []):
            if _implied_equal(kt, pk, 4000):
                return pb
    p = _enc(kt)
    # is_valid_point is false for the identity (libsodium rejects small-order points), true for k != 0
    e.add(z3.And(p >= 0, p < 2 ** 256, _dlog(p) == kt, _decodable(p), _validpt(p) == (kt != 0)))
    out = int_to_bytes_model(SymInt(p, 256), 32, 'big')
    _known(e)[_key(out)] = (out, None)
    _src(e)[_key(out)] = (out, p)
    e.run_cache.setdefault('alg_k', {})[_key(out)] = (out, kt)
    e.run_cache.setdefault('alg_points', []).append((out, kt))
    return out


def dlog_point(p, what='point'):
    """discrete log term of point bytes p; raises like libsodium for invalid points"""
    e = eng()
    e.run_cache['stubbed'] = True
    kk = e.run_cache.get('alg_k', {}).get(_key(p))
    if kk is not None:
        return kk[1]                           # a point this model produced: its discrete log is known
    pi = point_int(p)
    e.add(z3.Implies(_validpt(pi), _decodable(pi)))
    if _key(p) not in _known(e) and not mk_bool(_decodable(pi)):
        raise nacl.exceptions.RuntimeError('Unexpected library error')
    d = _dlog(pi)
    e.add(z3.And(d >= 0, d < L, _enc(d) == pi, _validpt(pi) == (d != 0)))
    return d


def _opaque():
    from .core import ABSTRACT
    return ABSTRACT['algebra']


def _opq(name, *args):
    """opaque mode (invariant harnesses): the result is an uninterpreted function of the arguments"""
    from .stubs import uf_bytes
    eng().run_cache['abstracted'] = True
    return uf_bytes('alg_' + name, 32, *[zi(from_bytes_model(a, 'big')) for a in args])


def _opq_points(*pts):
    eng().run_cache['stubbed'] = True
    for p in pts:
        pi = point_int(p)
        eng().add(z3.Implies(_validpt(pi), _decodable(pi)))
        if not mk_bool(_decodable(pi)):
            raise nacl.exceptions.RuntimeError('Unexpected library error')


def is_valid_point(p):
    _bytes32(p, 'point')
    e = eng()
    e.run_cache['stubbed'] = True
    hit = _known(e).get(_key(p))
    if hit is not None and hit[1] is True:
        return True
    if hit is not None and hit[1] is None and nondegenerate():
        e.add(_validpt(point_int(p)))            # results of group operations: not the identity (assumption)
        return True
    return mk_bool(_validpt(point_int(p)))


def scalar_reduce(h):
    if not is_byteslike(h) or len(h) != 64:
        raise nacl.exceptions.TypeError('Integer s must be a 64 bytes long bytes sequence')
    if _opaque():
        return _opq('reduce', h)
    return scalar_bytes(modL(zi(from_bytes_model(h, 'little'))))


def base_mult(s):
    _bytes32(s, 'scalar')
    if _opaque():
        eng().run_cache['abstracted'] = True
        if bool(mk_bool(z3.Bool(eng().fresh_name('alg_zero')))):
            raise nacl.exceptions.RuntimeError('Unexpected library error')
        r = _opq('base', s)
        eng().add(_validpt(point_int(r)))
        return r
    k = modL(scalar_int(s))
    if nondegenerate():
        eng().add(zi(k) != 0)                  # assumption: no intermediate scalar is 0 mod L (probability 2^-252)
    elif mk_bool(zi(k) == 0):
        raise nacl.exceptions.RuntimeError('Unexpected library error')
    return enc_point(k)


def scalar_mult_point(c, p):
    _bytes32(c, 'scalar')
    _bytes32(p, 'point')
    if _opaque():
        _opq_points(p)
        eng().run_cache['abstracted'] = True
        if bool(mk_bool(z3.Bool(eng().fresh_name('alg_zero')))):
            raise nacl.exceptions.RuntimeError('Unexpected library error')
        r = _opq('smul', c, p)
        eng().add(_validpt(point_int(r)))
        return r
    d = dlog_point(p)
    m = _M(zi(modL(scalar_int(c))), d)
    eng().add(z3.And(m >= 0, m < L))
    if nondegenerate():
        eng().add(m != 0)
    elif mk_bool(m == 0):
        raise nacl.exceptions.RuntimeError('Unexpected library error')
    return enc_point(m)


def point_add(p, q):
    _bytes32(p, 'point')
    _bytes32(q, 'point')
    if _opaque():
        _opq_points(p, q)
        return _opq('padd', p, q)
    return enc_point(modL(dlog_point(p) + dlog_point(q)))


def point_sub(p, q):
    _bytes32(p, 'point')
    _bytes32(q, 'point')
    if _opaque():
        _opq_points(p, q)
        return _opq('psub', p, q)
    return enc_point(modL(dlog_point(p) - dlog_point(q)))


def _ub_bits(b):
    """syntactic upper bound (in bits) of the little-endian value of 32 scalar bytes"""
    e = eng()
    hit = _src(e).get(_key(b))
    if hit is not None and not isinstance(hit[1], int) and hit[1].get_id() in e.run_cache.get('modL_remainders', {}):
        return 253                              # reduced mod L
    if isinstance(b, bytes):
        return max(int.from_bytes(b, 'little').bit_length(), 1)
    top = b.b[31]
    if isinstance(top, int):
        return 248 + max(top.bit_length(), 1)
    for key, val in e.run_cache.items():
        if isinstance(key, tuple) and len(key) == 4 and key[0] == 'bitop' and key[1] == 'and' and key[3] == 0x7f:
            if isinstance(val[1], SymInt) and val[1].t.eq(top):
                return 255                      # clamp_scalar cleared bit 255
    return 256


def scalar_add(a, b):
    _bytes32(a, 'scalar')
    _bytes32(b, 'scalar')
    if _opaque():
        return _opq('scalar_add', a, b)
    t = scalar_int(a) + scalar_int(b)
    if max(_ub_bits(a), _ub_bits(b)) + 1 <= 256:
        return scalar_bytes(modL(t))            # the 32-byte addition cannot wrap
    return scalar_bytes(modL(_wrap256(t)))


def scalar_sub(a, b):
    _bytes32(a, 'scalar')
    _bytes32(b, 'scalar')
    if _opaque():
        return _opq('scalar_sub', a, b)
    # libsodium: add(a, negate(b)), the 32-byte addition wraps mod 2^256 before the reduction
    t = scalar_int(a) + zi(modL(-scalar_int(b)))
    if _ub_bits(a) + 1 <= 256:
        return scalar_bytes(modL(t))
    return scalar_bytes(modL(_wrap256(t)))


def scalar_mul(a, b):
    _bytes32(a, 'scalar')
    _bytes32(b, 'scalar')
    if _opaque():
        return _opq('scalar_mul', a, b)
    m = _M(zi(modL(scalar_int(a))), zi(modL(scalar_int(b))))
    eng().add(z3.And(m >= 0, m < L))
    return scalar_bytes(m)


# ---------------------------------------------------------------- RFC 8032 on top of the model
def _clamp_key(h32):
    b = list(items_of(h32))
    from .core import bitop
    from .values import item_val, norm_item
    b[0] = norm_item(bitop('and', item_val(b[0]), 0b11111000)) if not isinstance(b[0], int) else b[0] & 0xf8
    last = item_val(b[31])
    if isinstance(last, int):
        b[31] = (last | 0x40) & 0x7f
    else:
        b[31] = norm_item(bitop('and', bitop('or', last, 0x40), 0x7f))
    return mk_bytes(b)


def _expand(seed):
    from .stubs import hash_model
    h = hash_model('sha512', seed, 64)
    return _clamp_key(h[:32]), h[32:]


def pub_of_seed(seed):
    a, _ = _expand(seed)
    return base_mult(a)


def _hram(R, A, m):
    from .stubs import hash_model
    return modL(zi(from_bytes_model(hash_model('sha512', R + A + m, 64), 'little')))


def ed25519_sign(seed, m):
    from .stubs import hash_model
    a, prefix = _expand(seed)
    A = base_mult(a)
    r = modL(zi(from_bytes_model(hash_model('sha512', prefix + m, 64), 'little')))
    R = enc_point(r)
    k = _hram(R, A, m)
    mm = _M(zi(k), zi(modL(scalar_int(a))))
    eng().add(z3.And(mm >= 0, mm < L))
    S = modL(zi(r) + mm)
    return R + scalar_bytes(S)


def ed25519_verify(A, m, sig):
    """bool | SymBool: the RFC 8032 verification equation in the model (S canonical, R and A decodable, A not of
    small order).  Non-forking: the whole predicate is one term."""
    e = eng()
    R, Sb = sig[:32], sig[32:]
    Ai, Ri = point_int(A), point_int(R)
    S = scalar_int(Sb)
    pre = z3.And(_validpt(Ai), _decodable(Ai), _decodable(Ri), S < L, S >= 0)
    ks = e.run_cache.get('alg_k', {})
    kA, kR = ks.get(_key(A)), ks.get(_key(R))
    dA = kA[1] if kA is not None else _dlog(Ai)
    dR = kR[1] if kR is not None else _dlog(Ri)
    for pi, d, known in ((Ai, dA, kA), (Ri, dR, kR)):
        if known is None:
            e.add(z3.Implies(_decodable(pi), z3.And(d >= 0, d < L, _enc(d) == pi, _validpt(pi) == (d != 0))))
    k = _hram(R, A, m)
    mm = _M(zi(k), dA)
    e.add(z3.And(mm >= 0, mm < L))
    return mk_bool(z3.And(pre, S == zi(modL(dR + mm))))


class XorShortcut:
    """engine optimisation for the constant-time compare `bytes_are_same` on two values that the model knows as
    integers (group elements / scalars): if the path condition implies that the integers are equal (different) the
    result is True (False), decided by one small solver query instead of a byte-wise proof; otherwise the real
    function runs.  Sound: both byte strings are the digits of their integer, and enc is injective."""

    def __init__(self, pkg):
        self.pkg = pkg

    def __enter__(self):
        F = self.pkg.functions
        self.real = F.bytes_are_same
        real = self.real

        def bytes_are_same(b1, b2):
            e = eng()
            src = _src(e)
            h1, h2 = src.get(_key(b1)), src.get(_key(b2))
            if h1 is not None and h2 is not None and len(b1) == len(b2):
                ks = e.run_cache.get('alg_k', {})
                k1, k2 = ks.get(_key(b1)), ks.get(_key(b2))
                a, b = (k1[1], k2[1]) if k1 is not None and k2 is not None else (h1[1], h2[1])
                if _implied_equal(a, b):
                    return True
                if _implied_different(a, b):
                    return False
            return real(b1, b2)
        F.bytes_are_same = bytes_are_same
        self.real_amhl = self.pkg.AMHL.bytes_are_same      # imported by name into AMHL.py
        self.pkg.AMHL.bytes_are_same = bytes_are_same
        return self

    def __exit__(self, *a):
        self.pkg.functions.bytes_are_same = self.real
        self.pkg.AMHL.bytes_are_same = self.real_amhl
        return False
