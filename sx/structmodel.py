"""struct.pack / struct.unpack for symbolic arguments: network byte order ('!' / '>'), the field kinds the package uses
(c, b, B, ?, h, H, i, I, l, L, q, Q, <n>s, x) with concrete format strings.  Byte strings keep their concrete length and
symbolic content; integer fields may be symbolic (range-checked like struct does)."""
from __future__ import annotations
import re
import struct as _struct
import z3
from .core import eng, SymInt, SymBool, mk_bool, Unsupported
from .values import SymBytes, mk_bytes, items_of, from_bytes_model, int_to_bytes_model

_INT = {'b': (1, True), 'B': (1, False), 'h': (2, True), 'H': (2, False), 'i': (4, True), 'I': (4, False),
        'l': (4, True), 'L': (4, False), 'q': (8, True), 'Q': (8, False)}
_TOK = re.compile(r'(\d*)([cbB?hHiIlLqQsx])')


def _fields(fmt):
    if not fmt or fmt[0] not in '!>':
        eng().fail(Unsupported, f'struct format {fmt!r}: only network / big-endian order is modelled')
    body = fmt[1:].replace(' ', '')
    out, pos = [], 0
    while pos < len(body):
        m = _TOK.match(body, pos)
        if not m:
            eng().fail(Unsupported, f'struct format {fmt!r}')
        n, ch = m.group(1), m.group(2)
        pos = m.end()
        if ch == 's':
            out.append(('s', int(n) if n else 1))
        elif ch == 'x':
            out.append(('x', int(n) if n else 1))
        else:
            for _ in range(int(n) if n else 1):
                out.append((ch, 1))
    return out


def calcsize(fmt):
    return sum(n if ch in 'sx' else (1 if ch in 'c?' else _INT[ch][0]) for ch, n in _fields(fmt))


def pack(fmt, *args):
    fields = _fields(fmt)
    need = sum(1 for ch, _ in fields if ch != 'x')
    if need != len(args):
        raise _struct.error(f'pack expected {need} items for packing (got {len(args)})')
    out, ai = [], 0
    for ch, n in fields:
        if ch == 'x':
            out += [0] * n
            continue
        a = args[ai]
        ai += 1
        if ch == 's':
            its = items_of(a)[:n]
            out += list(its) + [0] * (n - len(its))
        elif ch == 'c':
            its = items_of(a)
            if len(its) != 1:
                raise _struct.error('char format requires a bytes object of length 1')
            out.append(its[0])
        elif ch == '?':
            out.append(1 if bool(a) else 0)
        else:
            size, signed = _INT[ch]
            lo, hi = (-(1 << (8 * size - 1)), (1 << (8 * size - 1)) - 1) if signed else (0, (1 << (8 * size)) - 1)
            if isinstance(a, SymInt):
                if bool(mk_bool(z3.Or(a.t < lo, a.t > hi))):
                    raise _struct.error(f"'{ch}' format requires {lo} <= number <= {hi}")
                out += list(items_of(int_to_bytes_model(a, size, 'big', signed=signed)))
            else:
                out += list(_struct.pack('!' + ch, a))
    return mk_bytes(out)


def unpack(fmt, data):
    fields = _fields(fmt)
    its = items_of(data)
    total = sum(n if ch in 'sx' else (1 if ch in 'c?' else _INT[ch][0]) for ch, n in fields)
    if total != len(its):
        raise _struct.error(f'unpack requires a buffer of {total} bytes')
    out, pos = [], 0
    for ch, n in fields:
        if ch == 'x':
            pos += n
        elif ch == 's':
            out.append(mk_bytes(its[pos:pos + n]))
            pos += n
        elif ch == 'c':
            out.append(mk_bytes(its[pos:pos + 1]))
            pos += 1
        elif ch == '?':
            x = its[pos]
            out.append((x != 0) if isinstance(x, int) else mk_bool(x.t != 0))
            pos += 1
        else:
            size, signed = _INT[ch]
            chunk = its[pos:pos + size]
            if all(isinstance(x, int) for x in chunk):
                out.append(int.from_bytes(bytes(chunk), 'big', signed=signed))
            else:
                out.append(from_bytes_model(mk_bytes(chunk), 'big', signed=signed))
            pos += size
    return tuple(out)
