"""Environment stubs: clock, randomness, math.log2, hashes, Ed25519 (signature oracle and group algebra),
struct.  Every stub is a nondeterministic function constrained only by its contract; each is listed in
the `assumptions` of the evidence of the checks that use it (see DESIGN.md section 2)."""
from __future__ import annotations
import hashlib
import math
import struct as _struct
import types
import z3
import nacl.bindings as _nb
import nacl.exceptions
from .core import (eng, SymInt, SymBool, SymRatio, mk_int, mk_bool, zi, to_z3bool, Unsupported,
                   BoundExceeded, _conc, _isint, sym_and)
from .values import (SymBytes, SymByteArray, mk_bytes, items_of, from_bytes_model, int_to_bytes_model,
                     bytes_eq, is_byteslike)

L_ORDER = 2 ** 252 + 27742317777372353535851937790883648493


class Config:
    """per-harness stub configuration (reset by the harness at the start of every path)"""

    def __init__(self):
        self.reset()

    def reset(self):
        self.clock = None              # callable returning the current time, default: one symbolic `now`
        self.now = None
        self.log2_max_bits = 1024
        self.sig_mode = 'oracle'       # 'oracle' | 'algebra'
        self.verify_log = []           # (key, message, signature) seen by VerifyKey.verify
        self.sign_log = []             # (seed, message, signature) produced by SigningKey.sign
        self.hash_log = []             # (alg, input, output): every application on this path
        self.hash_unique = []          # the applications with pairwise different (syntactic) inputs: related pairwise
        self.hash_memo = {}            # (alg, input items) -> (input, output)
        self.alloc_log = []            # (what, size) requested sizes of stubbed allocations
        self.random_log = []
        self.point_apps = []
        self.collision_free = False
        self.real_hash_for_concrete = True
        self.alg_merge_points = False      # algebra: merge provably equal group elements eagerly
        self.assume_nondegenerate = False  # algebra: no intermediate scalar / point is the neutral element
        self.float_precise = False     # int -> float32 conversions as FP terms (slow) instead of UF bytes
        self.log2_apps = []            # (n term, result term) of the log2 stub on this path


CONFIG = Config()


def byte_int(b):
    """big-endian integer of a bytes-like (z3 Int term or python int)"""
    v = from_bytes_model(b, 'big')
    return v


def _argkey(a):
    return a if isinstance(a, int) else -1 - a.get_id()


def uf_bytes(fname, nbytes, *args):
    """nbytes symbolic bytes  f(args..., i), i < nbytes  of an uninterpreted function (deterministic in its
    integer arguments); terms and range constraint are cached across paths"""
    e = eng()
    e.run_cache['stubbed'] = True
    key = ('uf_bytes', fname, nbytes, tuple(_argkey(a) for a in args))
    hit = e.persist.get(key)
    if hit is None:
        zargs = [z3.IntVal(a) if isinstance(a, int) else a for a in args]
        f = z3.Function(fname, *([z3.IntSort()] * (len(args) + 2)))
        items = [f(*zargs, z3.IntVal(i)) for i in range(nbytes)]
        rng = z3.And(*[z3.And(t >= 0, t <= 255) for t in items]) if nbytes else None
        hit = e.persist[key] = (items, rng, zargs)
    items, rng, _ = hit
    if rng is not None:
        e.add(rng, simplified=True)
    return SymBytes(items) if nbytes else b''


# --------------------------------------------------------------------------------- clock / random
def stub_time():
    if CONFIG.clock is not None:
        return CONFIG.clock()
    if CONFIG.now is None:
        e = eng()
        v = z3.Int('now')
        e.add(v >= 0)
        CONFIG.now = SymInt(v)
        e.inputs['now'] = CONFIG.now
    return CONFIG.now


def stub_token_bytes(n=None):
    eng().run_cache['stubbed'] = True
    CONFIG.alloc_log.append(('token_bytes', n))
    if n is None:
        n = 32
    if isinstance(n, (SymInt, SymBool)):
        if mk_bool(zi(n) < 0):
            raise ValueError('negative argument not allowed')
        if mk_bool(zi(n) > 40):
            from .values import SymSized
            return SymSized(n)          # long random string: only its length is tracked
        n = eng().concretize(zi(n), limit=70, what='token_bytes size')
    if n < 0:
        raise ValueError('negative argument not allowed')
    e = eng()
    k = len(CONFIG.random_log)
    items = []
    for i in range(n):
        v = z3.Int(f'rand{k}[{i}]')
        e.add(z3.And(v >= 0, v <= 255))
        items.append(v)
    out = mk_bytes(items)
    CONFIG.random_log.append(out)
    e.inputs[f'rand{k}'] = out
    return out


# --------------------------------------------------------------------------------- log2 / floor / ceil
class Log2Val:
    """math.log2(n) / div for a symbolic integer n >= 1 and a concrete positive integer div.  The float result r of
    log2 is known through its contract only: k <= r <= k+1 for 2^k <= n < 2^(k+1) (k and k+1 are floats and rounding is
    monotone), r = k exactly for n = 2^k, and below 2^40 the result is exact enough that r is an integer only for powers of
    two.  Above, r may be rounded to either neighbouring integer (lv = k or k+1) - which one the real libm picks for a
    counterexample / witness is pinned by `log2_facts` / `witness_refinement` from the real math.log2."""
    _sx_symbolic = True

    def __init__(self, n, div=1):
        self.n = n
        self.div = div

    def __truediv__(self, c):
        if isinstance(c, int) and not isinstance(c, bool) and c > 0:
            return Log2Val(self.n, self.div * c)
        eng().fail(Unsupported, 'log2(symbolic) divided by a non-constant')

    def parts(self):
        """(lv, isint): lv = floor(r) as SymInt, isint = (r is an integer) as z3 Bool"""
        e = eng()
        n = self.n
        maxb = CONFIG.log2_max_bits
        if n.mag is not None and n.mag + 1 < maxb:
            maxb = n.mag + 1
        if mk_bool(n.t >= 2 ** maxb):
            e.fail(BoundExceeded, f'log2 of an integer of more than {maxb} bits')
        key = ('log2', n.t.get_id())
        hit = e.run_cache.get(key)
        if hit is not None and hit[0].eq(n.t):
            return hit[1], hit[2]
        lv = e.fresh_int('log2')
        isint = e.fresh_bool('log2int')
        # locate the byte-length class of n by binary search (decisions), then 8 cases inside it
        lo, hi = 0, (maxb + 7) // 8
        while hi - lo > 1:
            mid = (lo + hi) // 2
            if e.decide(n.t < 256 ** mid):
                hi = mid
            else:
                lo = mid
        cases = []
        for k in range(8 * lo, min(8 * hi, maxb)):
            rng = z3.And(n.t >= 2 ** k, n.t < 2 ** (k + 1))
            if k < EXACT_LOG2_BITS:
                cases.append(z3.And(rng, lv == k, isint == (n.t == 2 ** k)))
            else:
                # rounding up to k+1 needs log2(n) within an ulp or so of k+1: only in the band n >= 2^(k+1) - 2^(k-39)
                # (|log2(1-x)| > x; an ulp at k+1 <= 2^10 is at most 2^-42; two bits of slack for a libm that is off by an ulp)
                band = n.t >= 2 ** (k + 1) - 2 ** (k - 39)
                # ... and r can be the integer k itself only for n within the same distance above 2^k
                low = n.t <= 2 ** k + 2 ** (k - 39)
                cases.append(z3.And(rng, z3.Or(z3.And(lv == k, z3.Implies(n.t == 2 ** k, isint), z3.Implies(isint, low)),
                                               z3.And(lv == k + 1, isint, band))))
        e.add(z3.Or(*cases))
        res = SymInt(lv)
        CONFIG.log2_apps.append((n.t, lv, isint))
        e.run_cache[key] = (n.t, res, isint)
        return res, isint

    # comparisons of r / div with an integer-valued o:  r ? o * div
    def _cmp(self, o, kind):
        if not isinstance(o, (int, SymInt)) or isinstance(o, bool):
            eng().fail(Unsupported, f'log2(symbolic) compared with {type(o).__name__}')
        lv, isint = self.parts()
        m = (o.t if isinstance(o, SymInt) else z3.IntVal(o)) * self.div
        t = {'gt': z3.Or(lv.t > m, z3.And(lv.t == m, z3.Not(isint))),
             'ge': lv.t >= m,
             'lt': lv.t < m,
             'le': z3.Or(lv.t < m, z3.And(lv.t == m, isint)),
             'eq': z3.And(lv.t == m, isint)}[kind]
        return mk_bool(t)

    def __gt__(self, o):
        return self._cmp(o, 'gt')

    def __ge__(self, o):
        return self._cmp(o, 'ge')

    def __lt__(self, o):
        return self._cmp(o, 'lt')

    def __le__(self, o):
        return self._cmp(o, 'le')

    def __eq__(self, o):
        return self._cmp(o, 'eq')

    def __ne__(self, o):
        from .core import sym_not
        return sym_not(self._cmp(o, 'eq'))

    __hash__ = None


def stub_log2(x):
    if isinstance(x, SymInt):
        if mk_bool(x.t <= 0):
            raise ValueError('math domain error')
        return Log2Val(x)
    if isinstance(x, SymBool):
        x = int(bool(x))
    return math.log2(x)


EXACT_LOG2_BITS = 40


def stub_floor(x):
    if isinstance(x, Log2Val):
        lv, _ = x.parts()
        return lv if x.div == 1 else lv // x.div
    if isinstance(x, SymRatio):
        return x.num // x.den
    if isinstance(x, (SymInt, int)) and not isinstance(x, bool):
        return x
    return math.floor(x)


def stub_ceil(x):
    if isinstance(x, SymRatio):
        return -((-x.num) // x.den)
    if isinstance(x, Log2Val):
        lv, isint = x.parts()
        d = x.div
        q = z3.If(isint, -((-lv.t) / d), lv.t / d + 1)      # z3 integer division is floor division for d > 0
        return SymInt(q)
    if isinstance(x, (SymInt,)):
        return x
    return math.ceil(x)


# --------------------------------------------------------------------------------- hashes
_Hb = z3.Function('Hb', z3.IntSort(), z3.IntSort(), z3.IntSort(), z3.IntSort(), z3.IntSort())
_ALG = {'sha256': 1, 'sha512': 2, 'shake_256': 3}
_REAL = {'sha256': lambda b, n: hashlib.sha256(b).digest(),
         'sha512': lambda b, n: hashlib.sha512(b).digest(),
         'shake_256': lambda b, n: hashlib.shake_256(b).digest(n)}


def hash_model(alg, data, outlen):
    """outlen bytes of alg(data).  Symbolic input: one uninterpreted function of (algorithm, length,
    big-endian value, output index) per output byte (so equal inputs give equal outputs, SHAKE outputs
    of different sizes are prefixes of each other, and nothing else is known).  Concrete input: the real
    digest.  Applications on one path are related pairwise: equal inputs -> equal outputs (needed between
    concrete and symbolic applications) and, only if CONFIG.collision_free, equal outputs (>= 16 bytes)
    -> equal inputs."""
    e = eng()
    CONFIG.alloc_log.append((alg + '.digest', outlen))
    if isinstance(outlen, (SymInt,)):
        if mk_bool(outlen.t > 40):
            from .values import SymSized
            e.run_cache['stubbed'] = True
            return SymSized(outlen)      # long digest: only its length is tracked
        outlen = e.concretize(outlen.t, limit=300, what='digest size')
    if isinstance(data, SymByteArray):
        data = mk_bytes(data.b)
    if isinstance(data, (bytes, bytearray)):
        data = bytes(data)
        out = _REAL[alg](data, outlen)
    else:
        n = len(data)
        val = zi(byte_int(data))
        out = uf_bytes('Hb', outlen, _ALG[alg], n, val)
    # the same (syntactically identical) input again - merkle builders hash one subtree many times: the same output terms, and
    # no new pairwise constraints (those of the first application already say everything)
    key = (alg, tuple(x if isinstance(x, int) else zi(x).get_id() for x in items_of(data)))
    hit = CONFIG.hash_memo.get(key)
    if hit is not None and len(hit[1]) >= outlen:
        out = hit[1][:outlen]
        CONFIG.hash_log.append((alg, data, out))
        return out
    for (a2, d2, o2) in CONFIG.hash_unique:
        if a2 != alg:
            continue
        if len(d2) != len(data):
            m = min(len(o2), outlen)
            if CONFIG.collision_free and m >= 16 and not (isinstance(data, bytes) and isinstance(d2, bytes)):
                e.add(z3.Not(to_z3bool(bytes_eq(out[:m], o2[:m]))))
            continue
        both_sym = not isinstance(data, bytes) and not isinstance(d2, bytes)
        both_conc = isinstance(data, bytes) and isinstance(d2, bytes)
        if both_conc:
            continue
        m = min(len(o2), outlen)
        if not m:
            continue
        same_in = to_z3bool(bytes_eq(data, d2))
        same_out = to_z3bool(bytes_eq(out[:m], o2[:m]))
        if not both_sym:
            e.add(z3.Implies(same_in, same_out))
        if CONFIG.collision_free and m >= 16:
            e.add(z3.Implies(same_out, same_in))
    CONFIG.hash_log.append((alg, data, out))
    CONFIG.hash_unique.append((alg, data, out))
    CONFIG.hash_memo[key] = (data, out)
    return out


class _HashObj:
    def __init__(self, alg, data=b''):
        self.alg = alg
        self.data = data

    def update(self, more):
        self.data = self.data + more
        return self

    def copy(self):
        return _HashObj(self.alg, self.data)

    def digest(self, size=None):
        if self.alg == 'shake_256':
            if size is None:
                raise TypeError("digest() missing required argument 'length'")
            return hash_model(self.alg, self.data, size)
        return hash_model(self.alg, self.data, 32 if self.alg == 'sha256' else 64)

    def hexdigest(self, size=None):
        return self.digest(size).hex()


def stub_sha256(data=b''):
    return _HashObj('sha256', data)


def stub_sha512(data=b''):
    return _HashObj('sha512', data)


def stub_shake_256(data=b''):
    return _HashObj('shake_256', data)


# --------------------------------------------------------------------------------- Ed25519: signature oracle
_valid = z3.Function('valid', z3.IntSort(), z3.IntSort(), z3.IntSort(), z3.IntSort(), z3.BoolSort())
_pub = z3.Function('pub', z3.IntSort(), z3.IntSort())
_sigf = z3.Function('sig', z3.IntSort(), z3.IntSort(), z3.IntSort(), z3.IntSort())


def valid_term(key, msg, sig):
    return _valid(zi(byte_int(key)), len(msg), zi(byte_int(msg)) if len(msg) else z3.IntVal(0),
                  zi(byte_int(sig)))


def pub_of_seed(seed):
    """32 public key bytes of a 32-byte seed: uninterpreted injective function"""
    return uf_bytes('pub', 32, zi(byte_int(seed)))


class StubVerifyKey:
    def __init__(self, key, encoder=None):
        if not is_byteslike(key):
            raise nacl.exceptions.TypeError('VerifyKey must be created from 32 bytes')
        if len(key) != 32:
            raise nacl.exceptions.ValueError('The key must be exactly 32 bytes long')
        self._key = key

    def _sx_bytes(self):
        return self._key

    def __bytes__(self):
        if isinstance(self._key, bytes):
            return self._key
        eng().fail(Unsupported, 'native bytes(VerifyKey)')

    def __eq__(self, o):
        return isinstance(o, StubVerifyKey) and bool(bytes_eq(self._key, o._key))

    def __hash__(self):
        return hash(self._key)

    def verify(self, smessage, signature=None, encoder=None):
        if signature is None:
            signature, smessage = smessage[:64], smessage[64:]
        if not is_byteslike(signature) or len(signature) != 64:
            raise nacl.exceptions.ValueError('Verification signature must be created from 64 bytes')
        CONFIG.verify_log.append((self._key, smessage, signature))
        eng().run_cache['stubbed'] = True
        if CONFIG.sig_mode == 'algebra':
            from . import algebra
            ok = algebra.ed25519_verify(self._key, smessage, signature)
        else:
            ok = mk_bool(valid_term(self._key, smessage, signature))
        if not ok:
            raise nacl.exceptions.BadSignatureError('Signature was forged or corrupt')
        return smessage


class _Signed:
    def __init__(self, sig, msg):
        self.signature = sig
        self.message = msg


class StubSigningKey:
    def __init__(self, seed, encoder=None):
        if not is_byteslike(seed):
            raise nacl.exceptions.TypeError('SigningKey must be created from a 32 byte seed')
        if len(seed) != 32:
            raise nacl.exceptions.ValueError('The seed must be exactly 32 bytes long')
        self._seed = seed
        if CONFIG.sig_mode == 'algebra':
            from . import algebra
            self.verify_key = StubVerifyKey(algebra.pub_of_seed(seed))
        else:
            self.verify_key = StubVerifyKey(pub_of_seed(seed))

    def _sx_bytes(self):
        return self._seed

    def __bytes__(self):
        if isinstance(self._seed, bytes):
            return self._seed
        eng().fail(Unsupported, 'native bytes(SigningKey)')

    def sign(self, message, encoder=None):
        if CONFIG.sig_mode == 'algebra':
            from . import algebra
            sig = algebra.ed25519_sign(self._seed, message)
        else:
            e = eng()
            sig = uf_bytes('sig', 64, zi(byte_int(self._seed)), len(message),
                           zi(byte_int(message)) if len(message) else 0)
            e.add(valid_term(self.verify_key._key, message, sig))
        CONFIG.sign_log.append((self._seed, message, sig))
        return _Signed(sig, message)


# --------------------------------------------------------------------------------- struct
class StubStruct:
    error = _struct.error

    @staticmethod
    def pack(fmt, *args):
        if fmt == '!f':
            from . import floats
            return floats.pack_f32(args[0])
        if any(getattr(a, '_sx_symbolic', False) for a in args):
            from . import structmodel
            return structmodel.pack(fmt, *args)
        return _struct.pack(fmt, *args)

    @staticmethod
    def unpack(fmt, data):
        if fmt == '!f':
            from . import floats
            if isinstance(data, SymBytes):
                return (floats.unpack_f32(data),)
            return _struct.unpack(fmt, data)
        if isinstance(data, SymBytes):
            from . import structmodel
            return structmodel.unpack(fmt, data)
        return _struct.unpack(fmt, data)

    calcsize = staticmethod(_struct.calcsize)


# --------------------------------------------------------------------------------- nacl.bindings
def _make_nacl():
    from . import algebra
    b = types.SimpleNamespace()
    for name in dir(_nb):
        if name.startswith('crypto_') and isinstance(getattr(_nb, name), int):
            setattr(b, name, getattr(_nb, name))
    b.crypto_core_ed25519_scalar_reduce = algebra.scalar_reduce
    b.crypto_scalarmult_ed25519_base_noclamp = algebra.base_mult
    b.crypto_scalarmult_ed25519_noclamp = algebra.scalar_mult_point
    b.crypto_core_ed25519_is_valid_point = algebra.is_valid_point
    b.crypto_core_ed25519_add = algebra.point_add
    b.crypto_core_ed25519_sub = algebra.point_sub
    b.crypto_core_ed25519_scalar_add = algebra.scalar_add
    b.crypto_core_ed25519_scalar_sub = algebra.scalar_sub
    b.crypto_core_ed25519_scalar_mul = algebra.scalar_mul
    ns = types.SimpleNamespace(bindings=b, exceptions=nacl.exceptions)
    return ns


def install(pkg):
    from .containers import SDeque
    from . import sxbuiltins
    nacl_ns = _make_nacl()
    F = pkg.functions.__dict__
    F.update(time=stub_time, token_bytes=stub_token_bytes, log2=stub_log2, floor=stub_floor,
             ceil=stub_ceil, isnan=sxbuiltins.sx_isnan, sha256=stub_sha256, sha512=stub_sha512,
             shake_256=stub_shake_256, SigningKey=StubSigningKey, VerifyKey=StubVerifyKey,
             nacl=nacl_ns, struct=StubStruct)
    pkg.classes.__dict__.update(deque=SDeque)
    pkg.parsing.__dict__.update(log2=stub_log2, ceil=stub_ceil, struct=StubStruct)
    pkg.AMHL.__dict__.update(sha256=stub_sha256, nacl=nacl_ns, token_bytes=stub_token_bytes)
    pkg.tools.__dict__.update(sha256=stub_sha256, shake_256=stub_shake_256, SigningKey=StubSigningKey,
                              VerifyKey=StubVerifyKey, time=stub_time, nacl=nacl_ns, struct=StubStruct)


def _real_log2_parts(nv):
    r = math.log2(nv)
    return math.floor(r), r == math.floor(r)


def witness_refinement(model):
    """constraints that pin the nondeterministic stubs to what the real environment does for the values
    of `model` (so that a witness replay compares like with like); [] if nothing to pin"""
    out = []
    for n, lv, isint in CONFIG.log2_apps:
        nv = model.eval(n, model_completion=True).as_long()
        if nv >= 1:
            rl, ri = _real_log2_parts(nv)
            out.append(z3.And(lv == rl, isint == ri))
    return out


_LOG2_THRESHOLDS = {}


def _log2_thresholds(k):
    """for 2^k <= n < 2^(k+1): n_up = smallest n whose real math.log2 is (rounded up to) k+1, or 2^(k+1) if none;
    n_dn = largest n whose real math.log2 is exactly k.  Found by bisection: log2 and rounding are monotone."""
    hit = _LOG2_THRESHOLDS.get(k)
    if hit is not None:
        return hit
    lo, hi = 2 ** k, 2 ** (k + 1) - 1
    if math.log2(hi) < k + 1:
        n_up = hi + 1
    else:
        a, b = lo, hi                      # log2(a) < k+1 <= log2(b)
        while b - a > 1:
            m = (a + b) // 2
            if math.log2(m) >= k + 1:
                b = m
            else:
                a = m
        n_up = b
    a, b = lo, hi + 1                      # log2(a) == k, log2(b-ish) > k
    if math.log2(hi) == k:
        n_dn = hi
    else:
        b = hi
        while b - a > 1:
            m = (a + b) // 2
            if math.log2(m) == k:
                a = m
            else:
                b = m
        n_dn = a
    _LOG2_THRESHOLDS[k] = (n_up, n_dn)
    return n_up, n_dn


def log2_facts(model):
    """true facts about the real math.log2 (sound to add to any query): for the power-of-two range of each argument value in
    `model`, the complete behaviour of the real libm there - floor(r) = k+1 iff n >= n_up, r integral iff n >= n_up or n <= n_dn
    (thresholds found by bisection on the real function, which is monotone).  Used to refine a counterexample until it agrees
    with the real libm; one round per range suffices."""
    out = []
    for n, lv, isint in CONFIG.log2_apps:
        nv = model.eval(n, model_completion=True).as_long()
        if nv >= 1:
            k = nv.bit_length() - 1
            n_up, n_dn = _log2_thresholds(k)
            rng = z3.And(n >= 2 ** k, n < 2 ** (k + 1))
            out.append(z3.Implies(rng, z3.And(lv == z3.If(n >= n_up, k + 1, k), isint == z3.Or(n >= n_up, n <= n_dn))))
    return out
