"""SX core: path exploration by decision replay, solver synchronisation, symbolic scalar values.

The real tapescript source runs natively in CPython on proxy values.  Whenever Python needs a
concrete truth value of a symbolic condition (`if`, `while`, `and`, `assert`, `match`, list.remove ...)
`SymBool.__bool__` asks the engine, which consults z3 for the feasibility of both outcomes, follows
one and schedules the other for a later re-execution from scratch with the recorded decision prefix.
Exploration is exhaustive: every feasible path inside the harness bounds is run to its end.
"""
from __future__ import annotations
import time as _time
import z3

z3.set_param('model.compact', False)


class SxError(BaseException):
    """engine-level failure; always recorded in Engine.poison before it is raised, because the code
    under analysis contains `except BaseException` handlers that would otherwise swallow it"""


class Unsupported(SxError):
    pass


class BoundExceeded(SxError):
    pass


class Infeasible(SxError):
    """assume() made the path infeasible: the path is dropped (not an error)"""


_ENGINE = None


def eng() -> 'Engine':
    return _ENGINE


# ------------------------------------------------------------------------------------ engine
class Event:
    __slots__ = ('kind', 'val', 'h', 'alt')

    def __init__(self, kind, val, h, alt=False):
        self.kind, self.val, self.h, self.alt = kind, val, h, alt


class PathResult:
    def __init__(self):
        self.index = 0
        self.outcome = None        # whatever the harness returned
        self.poison = None
        self.dropped = False
        self.n_decisions = 0
        self.obligations = []      # (name, status, detail)
        self.inputs = {}
        self.log = []


class Engine:
    def __init__(self, check_timeout_ms=20000, max_paths=2_000_000, conc_limit=300):
        global _ENGINE
        _ENGINE = self
        self.solver = z3.Solver()
        self.solver.set('timeout', check_timeout_ms)
        self.sstack = []            # z3 terms currently pushed on the solver, one level per constraint
        self.sids = []              # their ast ids (terms are kept alive by sstack, so ids are stable)
        self.persist = {}           # cross-path cache of input terms (same names => same terms)
        self.check_timeout_ms = check_timeout_ms
        self.cur_timeout_ms = check_timeout_ms
        self.max_paths = max_paths
        self.conc_limit = conc_limit
        self.stats = dict(paths=0, dropped=0, decisions=0, forced=0, solver_checks=0, solver_time=0.0,
                          unknown=0, obligations=0, discharged=0, violated=0, concrete_obligations=0,
                          max_depth=0, events=0)
        # per-run state
        self.prefix = []
        self.trace = []
        self.pos = 0
        self.nconstraints = 0
        self.lits = {}              # ids of the constraints of the current path condition
        self.poison = None
        self.fresh_counter = 0
        self.inputs = {}
        self.log = []
        self.run_cache = {}
        self.cur = None
        self.hooks_reset = []       # callables run at the start of each path (reset registries ...)

    # -- fresh names -------------------------------------------------------------------------
    def fresh_name(self, base):
        self.fresh_counter += 1
        return f'{base}!{self.fresh_counter}'

    def fresh_int(self, base='i'):
        return z3.Int(self.fresh_name(base))

    def fresh_bool(self, base='b'):
        return z3.Bool(self.fresh_name(base))

    # -- poison ------------------------------------------------------------------------------
    def fail(self, exc_cls, msg):
        if self.poison is None:
            self.poison = f'{exc_cls.__name__}: {msg}'
        raise exc_cls(msg)

    # -- solver stack ------------------------------------------------------------------------
    def _push(self, term):
        """append a constraint to the path condition, keeping the incremental solver in sync"""
        k = self.nconstraints
        tid = term.get_id()
        if k < len(self.sstack) and self.sids[k] == tid:
            self.nconstraints += 1
            self.lits[tid] = self.lits.get(tid, 0) + 1
            return
        while len(self.sstack) > k:
            self.solver.pop()
            self.sstack.pop()
            self.sids.pop()
        self.solver.push()
        self.solver.add(term)
        self.sstack.append(term)
        self.sids.append(tid)
        self.nconstraints += 1
        self.lits[tid] = self.lits.get(tid, 0) + 1

    def _trim(self):
        while len(self.sstack) > self.nconstraints:
            self.solver.pop()
            self.sstack.pop()
            self.sids.pop()

    def _check(self, *assumptions, retry='starved'):
        """one solver query.  The solver's time limit is wall-clock: on a loaded machine a query that normally takes seconds may
        hit it.  retry='starved': the query is repeated (once, with a limit scaled by the observed wall/CPU ratio, at most x8)
        only when the process got less than 70% of a core while it ran - a genuine time-out of an opportunistic query
        (branch feasibility, value merging: `unknown` is over-approximated there) is not paid twice.  retry='always' (proof
        obligations, where `unknown` makes the whole check inconclusive): one retry with six times the engine's limit."""
        self._trim()
        t0 = _time.time()
        c0 = _time.process_time()
        r = self.solver.check(*assumptions)
        if r == z3.unknown and ('canceled' in self.solver.reason_unknown() or 'timeout' in self.solver.reason_unknown()):
            wall = _time.time() - t0
            cpu = max(_time.process_time() - c0, 1e-3)
            limit = None
            if retry == 'always':
                limit = self.check_timeout_ms * 6
            elif cpu < 0.7 * wall:
                limit = int(min(8.0, 1.5 * wall / cpu) * wall * 1000)
            if limit:
                self.solver.set('timeout', limit)
                try:
                    r = self.solver.check(*assumptions)
                finally:
                    self.solver.set('timeout', self.cur_timeout_ms)
                self.stats['retries'] = self.stats.get('retries', 0) + 1
        self.stats['solver_time'] += _time.time() - t0
        self.stats['solver_checks'] += 1
        if r == z3.unknown:
            self.stats['unknown'] += 1
        return r

    def set_timeout(self, ms=None):
        """time limit of the following queries (None: the engine's default)"""
        self.cur_timeout_ms = ms or self.check_timeout_ms
        self.solver.set('timeout', self.cur_timeout_ms)

    def pc(self):
        return list(self.sstack[:self.nconstraints])

    # -- constraints that are not decisions --------------------------------------------------
    def add(self, term, simplified=False):
        """definitional constraint (fresh variables) or assumption known to keep the path feasible"""
        if isinstance(term, bool):
            if not term:
                raise Infeasible()
            return
        if not simplified:
            term = z3.simplify(term)
            if z3.is_true(term):
                return
        self._push(term)

    def assume(self, cond):
        """harness assumption; drops the path if it becomes infeasible"""
        t = to_z3bool(cond)
        t = z3.simplify(t)
        if z3.is_true(t):
            return
        if z3.is_false(t):
            raise Infeasible()
        ev = self._replay_event('assume', t)
        if ev is not None:
            if not ev.val:
                raise Infeasible()
            self._push(t)
            return
        r = self._check(t)
        ok = r != z3.unsat
        self.trace.append(Event('assume', ok, t.hash()))
        self.pos += 1
        if not ok:
            raise Infeasible()
        self._push(t)

    def _replay_event(self, kind, t):
        if self.pos < len(self.prefix):
            ev = self.prefix[self.pos]
            if ev.kind != kind and not (kind == 'decide' and ev.kind in ('forced', 'choice')):
                self.fail(SxError, f'nondeterministic replay: expected {ev.kind} got {kind} at {self.pos}')
            if ev.h != t.hash():
                self.fail(SxError, f'nondeterministic replay: term mismatch at event {self.pos}')
            self.trace.append(ev)
            self.pos += 1
            return ev
        return None

    # -- decisions ---------------------------------------------------------------------------
    def decide(self, t) -> bool:
        """concrete truth value for z3 Bool term t on this path (forks the exploration if both are
        feasible)"""
        t = z3.simplify(t)
        if z3.is_true(t):
            return True
        if z3.is_false(t):
            return False
        self.stats['events'] += 1
        tid = t.get_id()
        if tid in self.lits:
            self.stats['syntactic'] = self.stats.get('syntactic', 0) + 1
            return True
        if z3.is_not(t):
            if t.arg(0).get_id() in self.lits:
                self.stats['syntactic'] = self.stats.get('syntactic', 0) + 1
                return False
        elif z3.Not(t).get_id() in self.lits:
            self.stats['syntactic'] = self.stats.get('syntactic', 0) + 1
            return False
        ev = self._replay_event('decide', t)
        if ev is not None:
            if ev.kind == 'choice':
                self._push(t if ev.val else (t.arg(0) if z3.is_not(t) else z3.Not(t)))
            return ev.val
        nt = t.arg(0) if z3.is_not(t) else z3.Not(t)
        r_f = self._check(nt)
        if r_f == z3.unsat:
            self.trace.append(Event('forced', True, t.hash()))
            self.pos += 1
            self.stats['forced'] += 1
            return True
        r_t = self._check(t)
        if r_t == z3.unsat:
            self.trace.append(Event('forced', False, t.hash()))
            self.pos += 1
            self.stats['forced'] += 1
            return False
        # both feasible (unknown is treated as feasible: over-approximation, reported in stats)
        self.trace.append(Event('choice', True, t.hash(), alt=True))
        self.pos += 1
        self.stats['decisions'] += 1
        self._push(t)
        return True

    def concretize(self, t, limit=None, what='value'):
        """concrete int for Int term t on this path; forks over all feasible values (bounded)"""
        t = z3.simplify(t)
        if z3.is_int_value(t):
            return t.as_long()
        limit = limit or self.conc_limit
        key = ('conc', t.get_id())
        hit = self.run_cache.get(key)
        if hit is not None and hit[0].eq(t):
            return hit[1]
        n = 0
        while True:
            n += 1
            if n > limit:
                self.fail(BoundExceeded, f'concretize: more than {limit} values for {what}')
            v = self._pick(t)
            if self.decide(t == v):
                self.run_cache[key] = (t, v)
                return v

    def _pick(self, t):
        if self.pos < len(self.prefix):
            ev = self.prefix[self.pos]
            if ev.kind != 'pick' or ev.h != t.hash():
                self.fail(SxError, f'nondeterministic replay: expected {ev.kind} got pick at {self.pos}')
            self.trace.append(ev)
            self.pos += 1
            return ev.val
        r = self._check()
        if r != z3.sat:
            self.fail(Unsupported, f'concretize: solver {r}')
        v = self.solver.model().eval(t, model_completion=True).as_long()
        self.trace.append(Event('pick', v, t.hash()))
        self.pos += 1
        return v

    # -- exploration -------------------------------------------------------------------------
    def explore(self, fn, on_path=None):
        """run fn() on every feasible path. fn returns the outcome; on_path(PathResult) is called at
        the end of each path while the path condition is still on the solver."""
        pending = [[]]
        results = []
        while pending:
            prefix = pending.pop()
            if self.stats['paths'] >= self.max_paths:
                raise BoundExceeded(f'more than {self.max_paths} paths')
            pr = self._run(fn, prefix)
            base = len(prefix)
            # schedule alternatives of new choice points (deepest last -> popped first)
            for i in range(base, len(self.trace)):
                ev = self.trace[i]
                if ev.alt and ev.kind == 'choice':
                    pending.append(self.trace[:i] + [Event('choice', False, ev.h, alt=False)])
            if pr.dropped:
                self.stats['dropped'] += 1
            else:
                self.stats['paths'] += 1
                pr.index = self.stats['paths']
                if on_path is not None:
                    on_path(pr)
            results.append(pr) if on_path is None else None
        return results

    def _run(self, fn, prefix):
        # materialise a pending 'concalt' marker into a concrete conc event
        self.prefix = list(prefix)
        self.trace = []
        self.pos = 0
        self.nconstraints = 0
        self.lits = {}
        self.poison = None
        self.fresh_counter = 0
        self.inputs = {}
        self.log = []
        self.run_cache = {}
        for h in self.hooks_reset:
            h()
        pr = PathResult()
        self.cur = pr
        try:
            pr.outcome = fn()
        except Infeasible:
            pr.dropped = True
        except SxError as e:
            if self.poison is None:
                self.poison = f'{type(e).__name__}: {e}'
        pr.poison = self.poison
        pr.inputs = self.inputs
        pr.log = self.log
        pr.n_decisions = len(self.trace)
        self.stats['max_depth'] = max(self.stats['max_depth'], len(self.trace))
        return pr


# ------------------------------------------------------------------------------------ values
def to_z3bool(v):
    if isinstance(v, SymBool):
        return v.t
    if isinstance(v, bool):
        return z3.BoolVal(v)
    if z3.is_expr(v):
        return v
    if isinstance(v, SymInt):
        return v.t != 0
    if isinstance(v, int):
        return z3.BoolVal(v != 0)
    raise TypeError(f'to_z3bool {type(v)}')


def zi(v):
    if isinstance(v, SymInt):
        return v.t
    if isinstance(v, SymBool):
        return z3.If(v.t, 1, 0)
    if isinstance(v, bool):
        return z3.IntVal(int(v))
    if isinstance(v, int):
        return z3.IntVal(v)
    if z3.is_expr(v):
        return v
    raise TypeError(f'zi {type(v)}')


def _magof(v):
    if isinstance(v, SymInt):
        return v.mag
    if isinstance(v, SymBool):
        return 1
    return max(abs(v).bit_length(), 1)


def _mag2(a, b, extra=1):
    ma, mb = _magof(a), _magof(b)
    if ma is None or mb is None:
        return None
    return max(ma, mb) + extra


def mk_int(t, width=None, mag=None):
    if isinstance(t, int):
        return t
    if z3.is_int_value(t):
        return t.as_long()
    n = t.num_args()
    if 0 < n <= 2 and all(z3.is_int_value(a) for a in t.children()):
        t = z3.simplify(t)
        if z3.is_int_value(t):
            return t.as_long()
    return SymInt(t, width, mag)


def mk_bool(t):
    if isinstance(t, bool):
        return t
    if z3.is_true(t):
        return True
    if z3.is_false(t):
        return False
    return SymBool(t)


def is_symbolic(v):
    return isinstance(v, (SymInt, SymBool)) or getattr(v, '_sx_symbolic', False)


def _isint(v):
    return (isinstance(v, int) or isinstance(v, (SymInt, SymBool)))


class SymBool:
    __slots__ = ('t',)
    _sx_symbolic = True

    def __init__(self, t):
        self.t = t

    def __bool__(self):
        return eng().decide(self.t)

    def __repr__(self):
        return f'SymBool({self.t})'

    def __eq__(self, o):
        if isinstance(o, (bool, SymBool)):
            return mk_bool(self.t == to_z3bool(o))
        if _isint(o):
            return mk_bool(zi(self) == zi(o))
        return False

    def __ne__(self, o):
        r = self.__eq__(o)
        return mk_bool(z3.Not(to_z3bool(r)))

    def __hash__(self):
        return hash(bool(self))

    def __and__(self, o):
        if isinstance(o, (bool, SymBool)):
            return mk_bool(z3.And(self.t, to_z3bool(o)))
        return SymInt(zi(self)).__and__(o)
    __rand__ = __and__

    def __or__(self, o):
        if isinstance(o, (bool, SymBool)):
            return mk_bool(z3.Or(self.t, to_z3bool(o)))
        return SymInt(zi(self)).__or__(o)
    __ror__ = __or__

    def __invert__(self):
        return SymInt(zi(self)).__invert__()

    def __int__(self):
        return 1 if bool(self) else 0

    def __index__(self):
        return 1 if bool(self) else 0

    def __add__(self, o): return SymInt(zi(self)) + o
    def __radd__(self, o): return o + SymInt(zi(self))
    def __mul__(self, o): return SymInt(zi(self)) * o
    def __rmul__(self, o): return o * SymInt(zi(self))


def sym_not(v):
    """non-forking not"""
    if isinstance(v, SymBool):
        return mk_bool(z3.Not(v.t))
    return not v


def sym_and(*vs):
    ts = []
    for v in vs:
        if isinstance(v, SymBool):
            ts.append(v.t)
        elif not v:
            return False
    if not ts:
        return True
    return mk_bool(z3.And(*ts))


def sym_or(*vs):
    ts = []
    for v in vs:
        if isinstance(v, SymBool):
            ts.append(v.t)
        elif v:
            return True
    if not ts:
        return False
    return mk_bool(z3.Or(*ts))


def sym_implies(a, b):
    return sym_or(sym_not(a), b)


def sym_ite(c, a, b):
    """non-forking conditional on ints/bools (bytes: see values.ite_bytes)"""
    if not isinstance(c, SymBool):
        return a if c else b
    if isinstance(a, (bool, SymBool)) and isinstance(b, (bool, SymBool)):
        return mk_bool(z3.If(c.t, to_z3bool(a), to_z3bool(b)))
    if _isint(a) and _isint(b):
        return mk_int(z3.If(c.t, zi(a), zi(b)), None, _mag2(a, b, 0))
    raise TypeError('sym_ite')


class SymInt:
    """Python int backed by a z3 Int term (mathematical integer: Python ints do not wrap).
    `width`: if set, the value is known to satisfy 0 <= v < 2**width (used by bit operations)."""
    __slots__ = ('t', 'width', 'mag', 'zero_parts')
    _sx_symbolic = True

    def __init__(self, t, width=None, mag=None, zero_parts=None):
        self.t = t
        self.width = width
        self.mag = mag if mag is not None else width      # |v| < 2**mag when known
        self.zero_parts = zero_parts     # non-negative terms whose positive-weighted sum is the value

    def _is_zero(self):
        """value == 0 as a Bool term; a weighted sum of bytes is zero iff every byte is (cheaper for the solver)"""
        if self.zero_parts:
            return z3.And(*[p == 0 for p in self.zero_parts]) if len(self.zero_parts) > 1 else self.zero_parts[0] == 0
        return self.t == 0

    def __repr__(self):
        return f'SymInt({self.t})'

    # ---- conversions
    def __bool__(self):
        return eng().decide(z3.Not(self._is_zero()))

    def __index__(self):
        return eng().concretize(self.t)

    def __int__(self):
        return eng().concretize(self.t)

    def __hash__(self):
        return hash(eng().concretize(self.t))

    def __format__(self, spec):
        from . import strings
        return strings.format_int(self, spec)

    def __str__(self):
        from . import strings
        return strings.format_int(self, '')

    # ---- arithmetic
    def __add__(self, o):
        if not _isint(o): return NotImplemented
        return mk_int(self.t + zi(o), None, _mag2(self, o))
    __radd__ = __add__

    def __sub__(self, o):
        if not _isint(o): return NotImplemented
        return mk_int(self.t - zi(o), None, _mag2(self, o))

    def __rsub__(self, o):
        if not _isint(o): return NotImplemented
        return mk_int(zi(o) - self.t, None, _mag2(self, o))

    def __mul__(self, o):
        if isinstance(o, float):
            from . import floats
            return floats.int_to_float(self) * o
        if not _isint(o): return NotImplemented
        if isinstance(o, SymInt) and ABSTRACT['nonlinear']:
            return _abstract_result('mul', self, o)
        if isinstance(o, SymInt):
            return mk_int(z3.simplify(self.t * o.t), None, (_magof(self) + _magof(o)) if _magof(self) and _magof(o) else None)
        return mk_int(self.t * zi(o))
    __rmul__ = __mul__

    def __neg__(self):
        return mk_int(-self.t, None, self.mag)

    def __pos__(self):
        return self

    def __abs__(self):
        return mk_int(z3.If(self.t >= 0, self.t, -self.t), None, self.mag)

    def __floordiv__(self, o):
        if not _isint(o): return NotImplemented
        return _floordiv(self, o)

    def __rfloordiv__(self, o):
        if not _isint(o): return NotImplemented
        return _floordiv(o, self)

    def __mod__(self, o):
        if not _isint(o): return NotImplemented
        return _mod(self, o)

    def __rmod__(self, o):
        if not _isint(o): return NotImplemented
        return _mod(o, self)

    def __truediv__(self, o):
        if isinstance(o, int) and not isinstance(o, bool) and o > 0:
            return SymRatio(self, o)
        eng().fail(Unsupported, 'true division of symbolic int')

    def __pow__(self, o, m=None):
        if m is not None:
            eng().fail(Unsupported, 'pow mod')
        if isinstance(o, int) and 0 <= o <= 8:
            r = 1
            for _ in range(o):
                r = r * self
            return r
        eng().fail(Unsupported, 'pow with symbolic base')

    def __rpow__(self, o):
        e = eng().concretize(self.t)
        return o ** e

    # ---- comparisons
    def __eq__(self, o):
        if not _isint(o): return False
        if self.zero_parts and type(o) is int and o == 0:
            return mk_bool(self._is_zero())
        return mk_bool(self.t == zi(o))

    def __ne__(self, o):
        if not _isint(o): return True
        if self.zero_parts and type(o) is int and o == 0:
            return mk_bool(z3.Not(self._is_zero()))
        return mk_bool(self.t != zi(o))

    def __lt__(self, o):
        if not _isint(o): return NotImplemented
        return mk_bool(self.t < zi(o))

    def __le__(self, o):
        if not _isint(o): return NotImplemented
        if self.zero_parts and type(o) is int and o == 0:
            return mk_bool(self._is_zero())
        return mk_bool(self.t <= zi(o))

    def __gt__(self, o):
        if not _isint(o): return NotImplemented
        if self.zero_parts and type(o) is int and o == 0:
            return mk_bool(z3.Not(self._is_zero()))
        return mk_bool(self.t > zi(o))

    def __ge__(self, o):
        if not _isint(o): return NotImplemented
        return mk_bool(self.t >= zi(o))

    # ---- bit operations
    def __rshift__(self, k):
        k = _conc(k)
        if k < 0:
            raise ValueError('negative shift count')
        if k == 0:
            return self
        q, _ = divmod_pow2(self, k)
        return q

    def __rrshift__(self, o):
        return o >> eng().concretize(self.t)

    def __lshift__(self, k):
        k = _conc(k)
        if k < 0:
            raise ValueError('negative shift count')
        return mk_int(self.t * (1 << k))

    def __rlshift__(self, o):
        k = eng().concretize(self.t)
        if k < 0:
            raise ValueError('negative shift count')
        return o << k

    def __and__(self, o):
        if not _isint(o): return NotImplemented
        return bitop('and', self, o)
    __rand__ = __and__

    def __or__(self, o):
        if not _isint(o): return NotImplemented
        return bitop('or', self, o)
    __ror__ = __or__

    def __xor__(self, o):
        if not _isint(o): return NotImplemented
        return bitop('xor', self, o)
    __rxor__ = __xor__

    def __invert__(self):
        return mk_int(-self.t - 1)

    # ---- methods of int
    def to_bytes(self, length=1, byteorder='big', *, signed=False):
        from .values import int_to_bytes_model
        return int_to_bytes_model(self, length, byteorder, signed)

    def bit_length(self):
        """exact: the byte-length class of |n| is located by binary search (decisions), the eight cases inside it are a
        disjunction (no fork); bound 1024 bits"""
        e = eng()
        a = z3.If(self.t >= 0, self.t, -self.t)
        maxb = 1024
        for w in (self.width, self.mag):
            if w is not None and w + 1 < maxb:
                maxb = w + 1
        if e.decide(a >= 2 ** maxb):
            e.fail(BoundExceeded, f'bit_length of an integer of more than {maxb} bits')
        lo, hi = 0, (maxb + 7) // 8
        while hi - lo > 1:
            mid = (lo + hi) // 2
            if e.decide(a < 256 ** mid):
                hi = mid
            else:
                lo = mid
        bl = e.fresh_int('bitlen')
        cases = [z3.And(a >= 2 ** k, a < 2 ** (k + 1), bl == k + 1) for k in range(8 * lo, min(8 * hi, maxb))]
        if lo == 0:
            cases.append(z3.And(a == 0, bl == 0))
        e.add(z3.Or(*cases))
        return SymInt(bl, None, 11)


class SymRatio:
    """result of SymInt / positive int constant; only ceil/floor/comparison with ints are supported"""
    _sx_symbolic = True

    def __init__(self, num, den):
        self.num, self.den = num, den


def _conc(k):
    if isinstance(k, SymInt):
        return eng().concretize(k.t)
    if isinstance(k, SymBool):
        return int(bool(k))
    return k


ABSTRACT = {'nonlinear': False, 'digits': False, 'algebra': False, 'floats': False, 'xor_uf': False, 'uf_digits': False}
_XOR8 = z3.Function('xor8', z3.IntSort(), z3.IntSort(), z3.IntSort())


def _abstract_result(op, a, b):
    """sound over-approximation of a*b, a//b, a%b for two symbolic operands (used by the invariant
    harnesses, where only the magnitude of the result matters): a fresh integer within the magnitude
    bound implied by the operands"""
    e = eng()
    e.run_cache['abstracted'] = True
    r = e.fresh_int('abs_' + op)
    ma, mb = _magof(a), _magof(b)
    if op == 'mul':
        mag = ma + mb if ma is not None and mb is not None else None
    elif op == 'div':
        mag = ma + 1 if ma is not None else None
    else:
        mag = mb + 1 if mb is not None else None
    if mag is not None:
        e.add(z3.And(r > -(2 ** mag), r < 2 ** mag))
    return SymInt(r, None, mag)


def _floordiv(a, b):
    bz = zi(b)
    if isinstance(b, (SymInt, SymBool)):
        if eng().decide(bz == 0):
            raise ZeroDivisionError('integer division or modulo by zero')
        if ABSTRACT['nonlinear'] and isinstance(a, SymInt):
            return _abstract_result('div', a, b)
    elif b == 0:
        raise ZeroDivisionError('integer division or modulo by zero')
    az = zi(a)
    if isinstance(b, int):
        if b > 0:
            return mk_int(az / bz)          # z3 div == floor for positive divisor
        return mk_int((-az) / (-bz))
    q = az / bz                             # z3: a = b*q + r, 0 <= r < |b|
    r = az % bz
    return mk_int(z3.If(z3.And(bz < 0, r != 0), q - 1, q))


def _mod(a, b):
    bz = zi(b)
    if isinstance(b, (SymInt, SymBool)):
        if eng().decide(bz == 0):
            raise ZeroDivisionError('integer division or modulo by zero')
        if ABSTRACT['nonlinear'] and isinstance(a, SymInt):
            return _abstract_result('mod', a, b)
    elif b == 0:
        raise ZeroDivisionError('integer division or modulo by zero')
    az = zi(a)
    if isinstance(b, int):
        if b > 0:
            return mk_int(az % bz, None)
        return mk_int(-((-az) % (-bz)))
    r = az % bz
    return mk_int(z3.If(z3.And(bz < 0, r != 0), r + bz, r))


def divmod_pow2(v, k):
    """(v >> k, v & (2**k-1)) for SymInt v with fresh variables and one linear equation"""
    e = eng()
    key = ('dm2', v.t.get_id(), k)
    hit = e.run_cache.get(key)
    if hit is not None and hit[0].eq(v.t):
        return hit[1], hit[2]
    if v.width is not None and v.width <= k:
        res = (0, v)
    else:
        q = e.fresh_int('q')
        r = e.fresh_int('r')
        e.add(z3.And(v.t == q * (1 << k) + r, r >= 0, r < (1 << k)))
        if v.width is not None:
            e.add(z3.And(q >= 0, q < (1 << (v.width - k))))
            res = (SymInt(q, v.width - k), SymInt(r, k))
        else:
            res = (SymInt(q), SymInt(r, k))
    e.run_cache[key] = (v.t, res[0], res[1])
    return res


def bits_of(v, n):
    """list of n z3 Bool terms: the n low bits of v (v: int | SymInt), least significant first.
    One decomposition per term and path: a value of known width w is decomposed once into w bits
    (v == sum bit_i 2^i); a value of unknown width into the widest prefix requested so far plus a
    quotient (v == hi * 2^n + sum)."""
    if isinstance(v, SymBool):
        return ([v.t] + [z3.BoolVal(False)] * (n - 1))[:n]
    if isinstance(v, int):
        return [z3.BoolVal(bool((v >> i) & 1)) for i in range(n)]
    e = eng()
    key = ('bits', v.t.get_id())
    hit = e.run_cache.get(key)
    if hit is not None and hit[0].eq(v.t) and (hit[2] or len(hit[1]) >= n):
        bs = hit[1]
        return (bs + [z3.BoolVal(False)] * (n - len(bs)))[:n] if hit[2] else bs[:n]
    if v.width is not None:
        w = v.width
        # bit variables are named after the term, so the decomposition is shared by all paths
        pk = ('bits', v.t.get_id(), w)
        ph = e.persist.get(pk)
        if ph is None or not ph[0].eq(v.t):
            bs = [z3.Bool(f'bit.{v.t.get_id()}.{i}') for i in range(w)]
            sm = z3.Sum([z3.If(b, 1 << i, 0) for i, b in enumerate(bs)]) if w > 1 else z3.If(bs[0], 1, 0)
            ph = e.persist[pk] = (v.t, bs, v.t == sm)
        bs = ph[1]
        e.add(ph[2], simplified=True)
        e.run_cache[key] = (v.t, bs, True)
        return (bs + [z3.BoolVal(False)] * (n - w))[:n]
    bs = [e.fresh_bool('bit') for _ in range(n)]
    s = z3.Sum([z3.If(b, 1 << i, 0) for i, b in enumerate(bs)]) if n > 1 else z3.If(bs[0], 1, 0)
    q = e.fresh_int('hi')
    e.add(v.t == q * (1 << n) + s)
    e.run_cache[key] = (v.t, bs, False)
    return bs


def register_bits(v, bs):
    """declare that SymInt v (of width len(bs)) is by construction sum bs[i] 2^i"""
    eng().run_cache[('bits', v.t.get_id())] = (v.t, list(bs), True)


def _width(v):
    if isinstance(v, SymBool):
        return 1
    if isinstance(v, SymInt):
        return v.width
    if v >= 0:
        return max(v.bit_length(), 1)
    return None


def bitop(op, a, b):
    if isinstance(a, int) and not isinstance(b, int):
        a, b = b, a
    if isinstance(a, SymBool):
        a = SymInt(zi(a), 1)
    if isinstance(b, SymBool):
        b = SymInt(zi(b), 1)
    if isinstance(b, int) and isinstance(a, SymInt):
        e = eng()
        key = ('bitop', op, a.t.get_id(), b)
        hit = e.run_cache.get(key)
        if hit is not None and hit[0].eq(a.t):
            return hit[1]
        if a.width is not None:
            ph = e.persist.get(key)
            if ph is not None and ph[0].eq(a.t):
                bits_of(a, a.width)          # makes sure the defining constraint is on this path
                e.run_cache[key] = ph
                return ph[1]
        res = _bitop_const(op, a, b)
        e.run_cache[key] = (a.t, res)
        if a.width is not None:
            e.persist[key] = (a.t, res)
        return res
    return _bitop_general(op, a, b)


def _bitop_const(op, a, m):
    if m < 0:
        return _bitop_general(op, a, m)
    wa = a.width
    if op == 'and':
        if m == 0:
            return 0
        n = m.bit_length() if wa is None else min(wa, m.bit_length())
        ba = bits_of(a, n)
        terms = [z3.If(ba[i], 1 << i, 0) for i in range(n) if (m >> i) & 1 and not z3.is_false(ba[i])]
        if not terms:
            return 0
        return SymInt(z3.Sum(terms) if len(terms) > 1 else terms[0], n)
    if wa is None:
        eng().fail(Unsupported, f'bit {op} of unbounded symbolic int with constant')
    n = max(wa, m.bit_length())
    ba = bits_of(a, n)
    terms = []
    const = 0
    for i in range(n):
        mb = (m >> i) & 1
        if op == 'or':
            if mb:
                const += 1 << i
            else:
                terms.append(z3.If(ba[i], 1 << i, 0))
        else:   # xor
            terms.append(z3.If(ba[i], 0, 1 << i) if mb else z3.If(ba[i], 1 << i, 0))
    t = z3.Sum(terms) if len(terms) > 1 else (terms[0] if terms else z3.IntVal(0))
    return mk_int(t + const if const else t, n)


def _xor_uf(a, b):
    """byte xor as an uninterpreted function with the facts equality reasoning needs (no bit-blasting):
    range, xor8(a,b) = 0 <=> a = b, and cancellation against every earlier application on this path that shares an
    operand position: a = a' -> (xor8(a,b) = xor8(a',b') <=> b = b').  Exact for deciding equalities between xor
    results and zero / each other; the numeric value of a non-zero result is otherwise left open (sound
    over-approximation)."""
    e = eng()
    at, bt = zi(a), zi(b)
    r = _XOR8(at, bt)
    apps = e.run_cache.setdefault('xor_apps', [])
    cons = [r >= 0, r <= 255, (r == 0) == (at == bt), _XOR8(bt, at) == r]
    for (a2, b2, r2) in (apps[-64:] if ABSTRACT['xor_uf'] == 'cancel' else ()):
        cons.append(z3.Implies(at == a2, (r == r2) == (bt == b2)))
        cons.append(z3.Implies(bt == b2, (r == r2) == (at == a2)))
        cons.append(z3.Implies(at == b2, (r == r2) == (bt == a2)))
        cons.append(z3.Implies(bt == a2, (r == r2) == (at == b2)))
    e.add(z3.And(*cons), simplified=True)
    apps.append((at, bt, r))
    return SymInt(r, 8)


def _bitop_general(op, a, b):
    wa, wb = _width(a), _width(b)
    if op == 'xor' and ABSTRACT['xor_uf'] and wa is not None and wb is not None and wa <= 8 and wb <= 8 \
            and isinstance(a, SymInt) and isinstance(b, SymInt):
        return _xor_uf(a, b)
    if op == 'and':
        # result fits in the narrower non-negative operand
        cands = [w for w in (wa, wb) if w is not None]
        if not cands:
            eng().fail(Unsupported, 'bit and of unbounded symbolic ints')
        n = min(cands)
        # a constant mask with few bits: only those bits matter
        ba, bb = bits_of(a, n), bits_of(b, n)
        terms = [z3.If(z3.And(x, y), 1 << i, 0) for i, (x, y) in enumerate(zip(ba, bb))
                 if not z3.is_false(x) and not z3.is_false(y)]
        return mk_int(z3.Sum(terms) if len(terms) > 1 else (terms[0] if terms else z3.IntVal(0)), n)
    if wa is None or wb is None:
        eng().fail(Unsupported, f'bit {op} of unbounded symbolic ints')
    n = max(wa, wb)
    ba, bb = bits_of(a, n), bits_of(b, n)
    f = z3.Or if op == 'or' else z3.Xor
    terms = [z3.If(f(x, y), 1 << i, 0) for i, (x, y) in enumerate(zip(ba, bb))]
    return mk_int(z3.Sum(terms) if len(terms) > 1 else terms[0], n)
