"""Symbolic payloads inside *real* Python strings.

tapescript's compiler and builders move data through source text (`f'push x{key.hex()}'`).  A symbolic
byte is rendered as two placeholder characters (a supplementary-private-use code point that indexes a
per-path registry, followed by U+E000), a symbolic ASCII byte of a decoded string as one placeholder
character, a symbolic non-negative integer in decimal as one *numeric* placeholder character.  All
string operations of the analysed code (`split`, `upper`, slicing, `join`, f-strings, `isnumeric`, `in`)
then run natively on real `str` objects; only the consumers of the payload (`bytes.fromhex`,
`int(...)`, `bytes(s, 'utf-8')`) are intercepted and map the placeholders back to their terms.

Assumption (stated in the evidence of every check that uses it): the analysed code inspects payload
characters only through those consumers; every path is additionally validated by replaying one
concrete instance through the real CPython code (witness replay).
"""
from __future__ import annotations
import z3
from .core import eng, SymInt, SymBool, mk_int, zi, Unsupported
from .values import SymBytes, mk_bytes, items_of

PUA_BASE = 0xF0000
PUA_END = 0xFFFFD
HEX_MARK = chr(0xE000)
NUMERIC_CHARS = [c for c in map(chr, list(range(0x2460, 0x2474)) + list(range(0x2776, 0x2794)) +
                                list(range(0x3220, 0x322a)) + list(range(0x3280, 0x328a)))
                 if c.isnumeric() and not c.isdigit() and c.upper() == c and c.lower() == c]
_NUM_INDEX = {c: i for i, c in enumerate(NUMERIC_CHARS)}


def _reg():
    rc = eng().run_cache
    r = rc.get('strreg')
    if r is None:
        r = rc['strreg'] = {'terms': [], 'ids': {}, 'decs': []}
    return r


def _char_for(term, kind):
    r = _reg()
    key = (kind, term.get_id())
    idx = r['ids'].get(key)
    if idx is None or not r['terms'][idx][1].eq(term):
        idx = len(r['terms'])
        if PUA_BASE + idx > PUA_END:
            eng().fail(Unsupported, 'too many symbolic string payload bytes')
        r['terms'].append((kind, term))
        r['ids'][key] = idx
    return chr(PUA_BASE + idx)


def is_placeholder(c):
    return PUA_BASE <= ord(c) <= PUA_END


def has_placeholder(s):
    return any(PUA_BASE <= ord(c) <= PUA_END or c in _NUM_INDEX for c in s)


def term_of(c, kind):
    r = _reg()
    idx = ord(c) - PUA_BASE
    if idx >= len(r['terms']):
        eng().fail(Unsupported, 'unknown string placeholder')
    k, t = r['terms'][idx]
    if k != kind:
        eng().fail(Unsupported, f'string placeholder of kind {k} consumed as {kind}')
    return t


def hex_of(b):
    out = []
    for x in items_of(b):
        if isinstance(x, int):
            out.append('%02x' % x)
        else:
            out.append(_char_for(x, 'hex') + HEX_MARK)
    return ''.join(out)


def fromhex(s):
    """bytes.fromhex on a string that may contain hex placeholders"""
    if not isinstance(s, str):
        raise TypeError(f'fromhex() argument must be str, not {type(s).__name__}')
    if not has_placeholder(s) and HEX_MARK not in s:
        return bytes.fromhex(s)
    out = []
    i = 0
    n = len(s)
    while i < n:
        c = s[i]
        if c in ' \t\n\r\x0b\x0c':
            i += 1
            continue
        if is_placeholder(c):
            if i + 1 >= n or s[i + 1] != HEX_MARK:
                eng().fail(Unsupported, 'hex placeholder split in the middle of a byte')
            out.append(term_of(c, 'hex'))
            i += 2
            continue
        if i + 1 >= n:
            raise ValueError(f'non-hexadecimal number found in fromhex() arg at position {i + 1}')
        try:
            out.append(int(s[i:i + 2], 16))
        except ValueError:
            if is_placeholder(s[i + 1]) or s[i + 1] == HEX_MARK or c == HEX_MARK:
                eng().fail(Unsupported, 'hex placeholder misaligned')
            raise ValueError(f'non-hexadecimal number found in fromhex() arg at position {i}') from None
        if s[i] in '+-_ ' or s[i + 1] in '+-_ ':
            raise ValueError(f'non-hexadecimal number found in fromhex() arg at position {i}')
        i += 2
    return mk_bytes(out)


def _mchar_for(terms):
    """placeholder character for one multi-byte UTF-8 sequence (a tuple of byte items)"""
    r = _reg()
    key = ('utf8m',) + tuple(x if isinstance(x, int) else x.get_id() for x in terms)
    idx = r['ids'].get(key)
    if idx is None:
        idx = len(r['terms'])
        if PUA_BASE + idx > PUA_END:
            eng().fail(Unsupported, 'too many symbolic string payload bytes')
        r['terms'].append(('utf8m', tuple(terms)))
        r['ids'][key] = idx
    return chr(PUA_BASE + idx)


def _in(x, lo, hi):
    if isinstance(x, int):
        return lo <= x <= hi
    return eng().decide(z3.And(x >= lo, x <= hi))


def decode_utf8(b):
    """str(b, 'utf-8') for symbolic bytes: the UTF-8 automaton (RFC 3629: 1..4 byte sequences, no overlongs, no surrogates, max
    U+10FFFF) runs under the solver - one decision per byte class; an ASCII byte becomes one placeholder character, a multi-byte
    sequence becomes ONE placeholder character (so len() counts characters, as in CPython); malformed input raises
    UnicodeDecodeError like CPython"""
    items = list(items_of(b))
    if all(isinstance(x, int) for x in items):
        return bytes(items).decode('utf-8')
    out = []
    i, n = 0, len(items)

    def bad(pos, why='invalid start byte'):
        raise UnicodeDecodeError('utf-8', b'', pos, pos + 1, why)
    while i < n:
        x = items[i]
        if _in(x, 0x00, 0x7f):
            out.append(chr(x) if isinstance(x, int) else _char_for(x, 'utf8'))
            i += 1
            continue
        if _in(x, 0xc2, 0xdf):
            need, first = 1, (0x80, 0xbf)
        elif _in(x, 0xe0, 0xef):
            need = 2
            first = (0xa0, 0xbf) if _in(x, 0xe0, 0xe0) else (0x80, 0x9f) if _in(x, 0xed, 0xed) else (0x80, 0xbf)
        elif _in(x, 0xf0, 0xf4):
            need = 3
            first = (0x90, 0xbf) if _in(x, 0xf0, 0xf0) else (0x80, 0x8f) if _in(x, 0xf4, 0xf4) else (0x80, 0xbf)
        else:
            bad(i)
        if i + need > n - 1:
            bad(i, 'unexpected end of data')
        seq = [x]
        for k in range(1, need + 1):
            y = items[i + k]
            lo, hi = first if k == 1 else (0x80, 0xbf)
            if not _in(y, lo, hi):
                bad(i + k, 'invalid continuation byte')
            seq.append(y)
        if all(isinstance(t, int) for t in seq):
            out.append(bytes(seq).decode('utf-8'))
        else:
            out.append(_mchar_for(seq))
        i += need + 1
    return ''.join(out)


def encode_utf8(s):
    if not has_placeholder(s):
        return s.encode('utf-8')
    out = []
    r = _reg()
    for c in s:
        if is_placeholder(c):
            idx = ord(c) - PUA_BASE
            if idx < len(r['terms']) and r['terms'][idx][0] == 'utf8m':
                out.extend(r['terms'][idx][1])
            else:
                out.append(term_of(c, 'utf8'))
        elif c in _NUM_INDEX:
            eng().fail(Unsupported, 'decimal placeholder encoded as text')
        else:
            if ord(c) >= 0x80:
                out.extend(c.encode('utf-8'))
            else:
                out.append(ord(c))
    return mk_bytes(out)


def format_int(v, spec=''):
    if spec not in ('', 'd'):
        # any other format (padding, radix, sign ...): the value is enumerated (one path per value; bounded), the text is then real
        val = eng().concretize(v.t, limit=300, what=f'integer formatted with {spec!r}')
        return format(val, spec)
    r = _reg()
    neg = eng().decide(v.t < 0)
    t = z3.simplify(-v.t if neg else v.t)
    for i, (u) in enumerate(r['decs']):
        if u.eq(t):
            idx = i
            break
    else:
        idx = len(r['decs'])
        if idx >= len(NUMERIC_CHARS):
            eng().fail(Unsupported, 'too many symbolic decimal payloads')
        r['decs'].append(t)
    return ('-' if neg else '') + NUMERIC_CHARS[idx]


def parse_int(s, base=10):
    """int(s) for a string that may be a decimal placeholder"""
    if not any(c in _NUM_INDEX for c in s):
        if has_placeholder(s):
            raise ValueError(f'invalid literal for int() with base {base}')
        return int(s, base)
    body = s.strip()
    sign = 1
    if body[:1] in '+-':
        sign = -1 if body[0] == '-' else 1
        body = body[1:]
    if len(body) != 1 or body not in _NUM_INDEX or base != 10:
        eng().fail(Unsupported, f'decimal placeholder mixed with other characters: {s!r}')
    r = _reg()
    t = r['decs'][_NUM_INDEX[body]]
    return mk_int(t if sign == 1 else -t)


def str_items(s):
    """UTF-8 byte items (ints / terms) of a str made of ordinary characters and utf8 placeholders, or None"""
    out = []
    for c in s:
        if is_placeholder(c):
            r = _reg()
            idx = ord(c) - PUA_BASE
            if idx >= len(r['terms']) or r['terms'][idx][0] not in ('utf8', 'utf8m'):
                return None
            if r['terms'][idx][0] == 'utf8m':
                out.extend(r['terms'][idx][1])
            else:
                out.append(r['terms'][idx][1])
        elif c == HEX_MARK or c in _NUM_INDEX:
            return None
        elif ord(c) >= 0x80:
            out.extend(c.encode('utf-8'))
        else:
            out.append(ord(c))
    return out


def str_eq(a, b):
    """equality of two strs either of which may contain utf8 placeholders: bool | SymBool"""
    if not has_placeholder(a) and not has_placeholder(b):
        return a == b
    ia, ib = str_items(a), str_items(b)
    if ia is None or ib is None:
        eng().fail(Unsupported, 'comparison of strings with non-utf8 placeholders')
    if len(ia) != len(ib):
        return False
    from .values import bytes_eq, mk_bytes
    return bytes_eq(mk_bytes(ia), mk_bytes(ib))
