#!/bin/sh
# usage: tools_try_wt.sh <worktree-id> <property> - evaluate a sub-agent's seeded change in its own worktree (does not touch /repo)
id=$1; prop=$2
wt=/tmp/wt/$id; src=$wt/seed; dst=/verif/seeded/$id
mkdir -p $dst; cp $src/patch.diff $src/demo.py $src/notes.md $dst/ 2>/dev/null
echo "--- demo on clean /repo:"; (cd /repo && PYTHONPATH=/repo /venv/bin/python $dst/demo.py >/dev/null 2>&1; echo "exit $?")
echo "--- worktree diff:"; git -C $wt diff --stat -- tapescript | tail -1
echo "--- tests with change:"; (cd $wt && PYTHONPATH=$wt /venv/bin/python -m pytest -q -p no:cacheprovider --timeout=900 2>&1 | tail -1)
echo "--- demo with change:"; (cd $wt && PYTHONPATH=$wt /venv/bin/python $dst/demo.py >/tmp/demo_out_$id.txt 2>&1; rc=$?; tail -2 /tmp/demo_out_$id.txt | cut -c1-200; echo "exit $rc")
echo "--- check $prop:"; (cd /verif && mkdir -p /tmp/ev_$id && VERIF_PROGRESS=0 VERIF_REPO=$wt VERIF_EVIDENCE=/tmp/ev_$id timeout 3000 ./check $prop 2>&1 | grep -v "^  inputs\|^  replay" | tail -4 | cut -c1-300)
