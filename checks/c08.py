"""C08 — scripts can read but never alter interpreter-owned (string-keyed) cache values."""
from __future__ import annotations
import z3
from sx.harness import HarnessSpec
from sx.core import SymInt, SymBool, mk_bool, zi, to_z3bool, sym_and, sym_or, sym_not
from sx.values import SymBytes, mk_bytes, items_of, bytes_eq
from sx.containers import SDict
from sx import stubs
from . import vmstep
from .common import outcome_of, exc_name

FUNCTIONS = ['functions:OP_WRITE_CACHE', 'functions:OP_POP0', 'functions:OP_POP1', 'functions:OP_READ_CACHE',
             'functions:OP_READ_CACHE_STACK', 'functions:OP_READ_CACHE_SIZE', 'functions:OP_READ_CACHE_STACK_SIZE',
             'functions:OP_GET_VALUE', 'functions:OP_GET_MESSAGE', 'functions:OP_TRY_EXCEPT', 'functions:OP_SIGN',
             'functions:OP_SIGN_STACK', 'functions:OP_DERIVE_SCALAR', 'functions:OP_DERIVE_POINT',
             'functions:OP_MAKE_ADAPTER_SIG_PUBLIC', 'functions:OP_MAKE_ADAPTER_SIG_PRIVATE',
             'functions:OP_DECRYPT_ADAPTER_SIG', 'functions:OP_INVOKE', 'functions:OP_RETURN', 'functions:OP_CALL',
             'functions:OP_EVAL', 'functions:OP_IF', 'functions:OP_IF_ELSE', 'functions:OP_LOOP',
             'functions:OP_CHECK_TIMESTAMP', 'functions:OP_CHECK_SIG', 'functions:OP_CHECK_TEMPLATE']
BOUNDS = {'quick': {'stack_shapes': [list(s) for s in vmstep.SHAPES_QUICK], 'tape_operand_bytes': '6 and 12 (symbolic; cache keys of '
                    'length 0..10 read from the tape, so keys spelling sigfield1 / timestamp in bytes are models)'},
          'thorough': {'stack_shapes': [list(s) for s in vmstep.SHAPES_THOROUGH], 'tape_operand_bytes': '6 and 12'}}
OUTSIDE = ['plugins and contracts (the property excludes them; the stub contract used for INVOKE/CHECK_TRANSFER does not touch the cache)',
           'cache keys longer than 10 bytes read from the tape / 32 bytes read from the stack']
ASSUMPTIONS = ['nested interpreter runs are summarised: a body writes only byte-string keys and the control flag (induction over nesting)',
               "cache['returned'] (written by OP_RETURN, deleted by OP_CALL / OP_EVAL) is the interpreter's own control flag, the only "
               'string key any instruction may write',
               'UTF-8 instructions only on ASCII input']
EXPLANATION = ('P1: one instruction of every opcode from a symbolic state with a recording cache model; the write/delete log '
               'contains only byte-string keys (plus the control flag), every embedder-supplied string-keyed entry is the same '
               'object afterwards, including on raising paths; only the documented readers read string keys')
MUST_REACH = ['wrote_bytes_key', 'wrote_returned', 'read_str_key', 'raise', 'ok', 'read_mutable_value']

STR_READERS = {'OP_GET_VALUE', 'OP_GET_MESSAGE', 'OP_CHECK_TIMESTAMP', 'OP_CHECK_TIMESTAMP_VERIFY', 'OP_CHECK_TEMPLATE',
               'OP_CHECK_TEMPLATE_VERIFY', 'OP_CHECK_SIG', 'OP_CHECK_SIG_VERIFY', 'OP_CHECK_MULTISIG',
               'OP_CHECK_MULTISIG_VERIFY', 'OP_SIGN', 'OP_TAPROOT'}
CONTROL = {'OP_RETURN', 'OP_CALL', 'OP_EVAL', 'OP_IF', 'OP_IF_ELSE', 'OP_TRY_EXCEPT', 'OP_LOOP', 'OP_MERKLEVAL', 'OP_TAPROOT'}


def h_step(c, pkg, op, lens, ntape=6, mutable=False):
    cache0 = None
    st, r, summ = vmstep.generic_step(c, pkg, op, lens, sym_limits=False, ntape=ntape, callstack_sym=True, mutable_fields=mutable)
    cache = st.cache
    name = op if isinstance(op, str) else 'NOP'
    c.reach('ok' if r[0] == 'ok' else 'raise')
    for kind, ktype, key in cache.wlog:
        if ktype == 'bytes':
            c.reach('wrote_bytes_key')
            continue
        if ktype == 'str' and key == 'returned':
            c.reach('wrote_returned')
            c.check('control_flag_only_from_control_ops', name in CONTROL, op=name)
            continue
        c.check('only_bytes_keys_written', False, kind=kind, key_type=ktype, key=key)
    # embedder entries unchanged (same objects), still present
    for k in ('sigfield1', 'sigfield2', 'timestamp', 'custom', 'blob'):
        present = any(kk == k for kk, _ in cache.entries if isinstance(kk, str))
        c.check('embedder_entry_still_present', present, key=k)
    vals = {kk: v for kk, v in cache.entries if isinstance(kk, str)}
    c.check('sigfield1_unchanged', vals.get('sigfield1') is c.e.inputs['sigfield1'])
    c.check('sigfield2_unchanged', vals.get('sigfield2') is c.e.inputs['sigfield2'])
    c.check('timestamp_unchanged', vals.get('timestamp') is c.e.inputs['timestamp'])
    c.check('custom_unchanged', vals.get('custom') == 'text')
    if mutable:
        for k, v in vmstep.MUTABLE_FIELDS.items():
            c.check('mutable_sigfield_not_altered_in_place', type(vals.get(k)) is bytearray and bytes(vals[k]) == v, key=k, op=name)
    # the embedder's mutable value: same content, and never handed to the script by reference (a stack item that
    # aliases it could be altered in place by a later instruction) - every stack item is an immutable bytes value
    blob = vals.get('blob')
    c.check('mutable_embedder_value_unchanged', type(blob) is bytearray and bytes(blob) == vmstep.BLOB)
    for it in vmstep.stack_items(st.stack):
        c.check('stack_item_does_not_alias_embedder_value', it is not blob, op=name)
        c.check('stack_items_are_immutable_bytes', isinstance(it, (bytes, SymBytes)) or hasattr(it, '_sx_view'),
                op=name, got=type(it).__name__)
    extra = [kk for kk in vals if kk not in ('sigfield1', 'sigfield2', 'timestamp', 'custom', 'blob', 'returned')]
    c.check('no_new_string_keys', not extra, keys=extra)
    # readers of string keys
    for kind, ktype, key in cache.rlog:
        if ktype == 'str' and key != 'returned':
            c.reach('read_str_key')
            if key == 'blob':
                c.reach('read_mutable_value')
            c.check('only_documented_readers_read_string_keys', name in STR_READERS, op=name, key=key)
    vmstep.witness_observables(c, op, st, r, summ)


def r_step(inputs, params, obligation):
    res = vmstep.concrete_generic_step(inputs, params)
    cache = res['cache']
    if obligation == 'mutable_sigfield_not_altered_in_place':
        bad = [k for k, v in vmstep.MUTABLE_FIELDS.items() if bytes(cache.get(k, b'')) != v]
        return {'reproduced': bool(bad), 'altered': bad, 'now': {k: bytes(cache.get(k, b'')).hex() for k in vmstep.MUTABLE_FIELDS}}
    if obligation in ('stack_item_does_not_alias_embedder_value', 'stack_items_are_immutable_bytes',
                      'mutable_embedder_value_unchanged'):
        items = list(res['stack'].deque)
        rep = {'stack_item_does_not_alias_embedder_value': any(x is cache.get('blob') for x in items),
               'stack_items_are_immutable_bytes': any(type(x) is not bytes for x in items),
               'mutable_embedder_value_unchanged': cache.get('blob') != bytearray(vmstep.BLOB)}[obligation]
        return {'reproduced': bool(rep), 'stack_types': [type(x).__name__ for x in items], 'outcome': repr(res['r'])[:200]}
    bad_w = [(k, t, repr(key)) for k, t, key in cache.wlog if t != 'bytes' and not (t == 'str' and key == 'returned')]
    changed = [k for k, v in res['pre_str'].items() if k not in cache or cache[k] is not v]
    new = [k for k in cache if isinstance(k, str) and k not in res['pre_str'] and k != 'returned']
    rep = bool(bad_w or changed or new)
    return {'reproduced': rep, 'bad_writes': bad_w[:3], 'changed': changed, 'new': new, 'outcome': repr(res['r'])[:200]}


def _sig(v):
    return {'harness': v['harness'], 'obligation': v['obligation'], 'op': v['params'].get('op')}


def _params(tier):
    out = vmstep.generic_params(tier)
    # long tapes for the instructions that read a cache key from the tape
    for op in ('OP_WRITE_CACHE', 'OP_READ_CACHE', 'OP_READ_CACHE_SIZE', 'OP_GET_VALUE', 'OP_SET_FLAG', 'OP_UNSET_FLAG'):
        for lens in ([], [1], [1, 1], [4, 4]):
            out.append({'op': op, 'lens': lens, 'ntape': 12})
    # the readers of the sigfields with the fields supplied as mutable buffers
    for op in sorted(STR_READERS):
        for lens in ([], [1], [32], [64, 32], [65, 32], [1, 1]):
            out.append({'op': op, 'lens': lens, 'mutable': True})
    return out


HARNESSES = [
    HarnessSpec('step', h_step, _params, replay=r_step, signature=_sig, concrete=vmstep.concrete_observables,
                witness_every=3),
]
