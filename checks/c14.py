"""C14 — delegation locks honour the certificate key, time window and delegability."""
from __future__ import annotations
import z3
from sx.harness import HarnessSpec
from sx.core import SymInt, SymBool, mk_bool, zi, to_z3bool, sym_and, sym_or, sym_not, eng
from sx.values import SymBytes, mk_bytes, items_of, bytes_eq, from_bytes_model
from sx.containers import SDict
from sx import stubs
from . import vmstep
from .common import outcome_of, exc_name, pinned_clock
from .c02 import ref_message, _subset, _ref_message_c
from .c13 import KeyOracle, _sigfields, _run_lock_from_state

FUNCTIONS = ['tools:Certificate.preimage', 'tools:Certificate.pack', 'tools:Certificate.unpack', 'tools:make_delegate_key_lock',
             'tools:make_delegate_key_chain_lock', 'tools:make_delegate_key_cert', 'tools:make_delegate_key_witness',
             'tools:make_delegate_key_chain_witness', 'functions:OP_SPLIT', 'functions:OP_CHECK_TIMESTAMP',
             'functions:OP_CHECK_TIMESTAMP_VERIFY', 'functions:OP_CHECK_SIG_STACK', 'functions:OP_CHECK_SIG', 'functions:OP_CALL',
             'functions:OP_DEF', 'functions:OP_IF_ELSE', 'functions:OP_AND', 'functions:OP_NOT', 'functions:OP_WRITE_CACHE',
             'functions:OP_READ_CACHE', 'functions:OP_POP0', 'functions:OP_DUP', 'functions:OP_SWAP2', 'functions:int_to_bytes',
             'functions:bytes_to_int', 'functions:run_auth_scripts']
BOUNDS = {'quick': {'chain_length': '1..2 (arbitrary-state exactness), 1..3 (builder completeness)', 'timestamps': 't, now unbounded integers; begin / end '
                    'all 32-bit patterns of the certificate bytes (exactness), [0, 2^31) (builders, one certificate) / [2^24, 2^31) (builder chains)', 'certificate': 'all 105 bytes symbolic; lengths 104 / 106 for the '
                    'malformed case', 'sigfields': 'two fields, symbolic', 'flags': 'allowed operand 00 and 03'},
          'thorough': {'chain_length': '1..3 (exactness), 1..5 (completeness)', 'timestamps': 'as quick', 'certificate': 'as quick',
                       'sigfields': 'as quick', 'flags': '00, 01, 03, ff'}}
OUTSIDE = ['chains longer than the bound (the recursive function body is the same code at every level)', 'Ed25519 itself (signature oracle)']
ASSUMPTIONS = ['signature oracle; clock stub (now >= 0); default ts_threshold of the package (60)',
               'delegability as the lock implements it: the may-delegate byte AND the witness marker is non-zero (make_delegate_key_cert only '
               'writes 0xff / 0x00)']
EXPLANATION = ('Certificate pack/unpack round trip on symbolic fields; the single-certificate lock and the recursive chain lock are built by the '
               'real builders (symbolic root key) and run from an arbitrary witness state (symbolic signature, certificates, markers) with '
               'symbolic t / now; verdict = reference fold over links (signed by previous key, inside window with slack, delegable, final '
               'signature by the last delegate); builder-made certificates and witnesses unlock exactly when every window holds')
MUST_REACH = ['cert_roundtrip', 'lock_true', 'lock_false', 'chain_true', 'chain_false', 'builder_true', 'builder_false']


# ------------------------------------------------------------------------------ certificate codec
def h_cert(c, pkg):
    T = pkg.tools
    stubs.CONFIG.log2_max_bits = 40
    key = c.bytes('key', 32)
    b = c.int('begin', 0, 2 ** 31 - 1)
    e = c.int('end', 0, 2 ** 31 - 1)
    can = bool(c.bool('can'))
    sig = c.bytes('sig', 64)
    cert = T.Certificate(key, b, e, can, sig)
    r = outcome_of(cert.pack)
    c.check('pack_total_on_valid_fields', r[0] == 'ok', got=repr(r)[:200])
    if r[0] != 'ok':
        return
    data = r[1]
    c.check('packed_length_105', len(data) == 105)
    r2 = outcome_of(T.Certificate.unpack, data)
    c.check('unpack_total', r2[0] == 'ok', got=repr(r2)[:200])
    if r2[0] != 'ok':
        return
    u = r2[1]
    c.check('roundtrip_key', bytes_eq(u.delegate_pubkey, key))
    c.check('roundtrip_begin', u.begin_ts == b)
    c.check('roundtrip_end', u.end_ts == e)
    c.check('roundtrip_may_delegate', u.can_further_delegate == can)
    c.check('roundtrip_signature', bytes_eq(u.signature, sig))
    c.check('layout', sym_and(bytes_eq(data[:32], key), from_bytes_model(data[32:36], 'big') == b,
                              from_bytes_model(data[36:40], 'big') == e, data[40] == (255 if can else 0), bytes_eq(data[41:], sig)))
    c.reach('cert_roundtrip')
    c.observe(packed=data)


def c_cert(inputs, params):
    import tapescript.tools as RT
    return {'packed': RT.Certificate(inputs['key'], inputs['begin'], inputs['end'], inputs['can'], inputs['sig']).pack()}


def r_cert(inputs, params, obligation):
    import tapescript.tools as RT
    cert = RT.Certificate(inputs['key'], inputs['begin'], inputs['end'], inputs['can'], inputs['sig'])
    r = outcome_of(lambda: RT.Certificate.unpack(cert.pack()))
    if r[0] != 'ok':
        return {'reproduced': True, 'r': repr(r)[:200]}
    u = r[1]
    ok = (u.delegate_pubkey, u.begin_ts, u.end_ts, u.can_further_delegate, u.signature) == \
        (inputs['key'], inputs['begin'], inputs['end'], inputs['can'], inputs['sig'])
    return {'reproduced': not ok}


# ------------------------------------------------------------------------------ reference
def _window(cert, t, now, thr):
    b = zi(from_bytes_model(cert[32:36], 'big'))
    e = zi(from_bytes_model(cert[36:40], 'big'))
    return z3.And(zi(t) >= b, zi(t) < e, z3.Or(thr <= 0, zi(t) - zi(now) < thr))


def _final_sig_ok(fields, key, sig, allowed):
    flag = sig[64] if len(sig) == 65 else 0
    msg = ref_message(fields, flag)
    return sym_and(_subset(flag, allowed), mk_bool(stubs.valid_term(key, msg, sig[:64])))


# ------------------------------------------------------------------------------ single-certificate lock
def h_lock(c, pkg, siglen, certlen, allowed):
    T = pkg.tools
    fields, sf = _sigfields(c, 0b011)
    t = c.int('t')
    sf['timestamp'] = t
    sf.wlog = []
    K = c.bytes('K', 32)
    lock = T.make_delegate_key_lock(K, '%02x' % allowed)
    sig = c.bytes('sig', siglen)
    cert = c.bytes('cert', certlen)
    ok, r, stack = _run_lock_from_state(pkg, lock.bytes, [sig, cert], sf)
    now = stubs.stub_time()
    thr = pkg.functions.flags['ts_threshold']
    if certlen != 105 or siglen not in (64, 65):
        c.check('malformed_certificate_or_signature_rejected', ok is False, certlen=certlen, siglen=siglen)
        c.reach('lock_false')
        return
    want = sym_and(mk_bool(stubs.valid_term(K, cert[:41], cert[41:])), mk_bool(_window(cert, t, now, thr)),
                   _final_sig_ok(fields, cert[:32], sig, allowed))
    c.check('verdict_equals_reference_predicate', ok == want)
    tt = ok is True or (ok is not False and bool(ok))
    c.reach('lock_true' if tt else 'lock_false')


# ------------------------------------------------------------------------------ chain lock
def h_chain(c, pkg, n, allowed):
    """stack (bottom first): sig, marker_n, cert_n, ..., marker_1, cert_1 with cert_1 signed by the root key"""
    T = pkg.tools
    fields, sf = _sigfields(c, 0b011)
    t = c.int('t')
    sf['timestamp'] = t
    sf.wlog = []
    K = c.bytes('K', 32)
    lock = T.make_delegate_key_chain_lock(K, '%02x' % allowed)
    sig = c.bytes('sig', 64)
    certs = [c.bytes(f'cert{i}', 105) for i in range(n)]          # cert0 is signed by the root
    marks = [c.bytes(f'mark{i}', 1) for i in range(n)]            # marker beneath cert i
    items = [sig]
    for i in reversed(range(n)):
        items += [marks[i], certs[i]]
    ok, r, stack = _run_lock_from_state(pkg, lock.bytes, items, sf)
    now = stubs.stub_time()
    thr = pkg.functions.flags['ts_threshold']
    # reference fold: link i is signed by key_i (key_0 = K), inside its window; it delegates further iff
    # (may-delegate byte AND marker) != 0; the first link that does not delegate must be the last one and its
    # delegate key signs the sigfields
    from sx.core import bits_of
    key = K
    conds = []
    alive = True
    for i in range(n):
        cert = certs[i]
        conds.append(mk_bool(stubs.valid_term(key, cert[:41], cert[41:])))
        conds.append(mk_bool(_window(cert, t, now, thr)))
        cb = bits_of(cert[40], 8) if not isinstance(cert[40], int) else None
        mb = bits_of(marks[i][0], 8) if not isinstance(marks[i][0], int) else None
        delegates = mk_bool(z3.Or(*[z3.And(x, y) for x, y in zip(cb, mb)]))
        if i < n - 1:
            conds.append(delegates)
        else:
            conds.append(sym_not(delegates))
        key = cert[:32]
    conds.append(_final_sig_ok(fields, key, sig, allowed))
    want = sym_and(*conds)
    c.check('verdict_equals_reference_fold', ok == want, n=n)
    tt = ok is True or (ok is not False and bool(ok))
    c.reach('chain_true' if tt else 'chain_false')


# ------------------------------------------------------------------------------ builders end to end
def h_builders(c, pkg, n, chain, allowed, flag):
    """root -> d1 -> ... -> dn certificates made by make_delegate_key_cert; witness by the builders; symbolic
    seeds, windows, t and now"""
    T, F = pkg.tools, pkg.functions
    stubs.CONFIG.log2_max_bits = 40
    fields, sf = _sigfields(c, 0b011)
    t = c.int('t')
    c.assume(t >= 0)
    sf['timestamp'] = t
    sf.wlog = []
    seeds = [c.bytes(f'seed{i}', 32) for i in range(n + 1)]
    pubs = [stubs.pub_of_seed(s) for s in seeds]
    wins = []
    certs = []
    with KeyOracle(pkg):
        for i in range(n):
            lo = 0 if n == 1 else 2 ** 24        # longer chains: 4-byte timestamps only (one length class per field)
            b = c.int(f'begin{i}', lo, 2 ** 31 - 1)
            e = c.int(f'end{i}', lo, 2 ** 31 - 1)
            wins.append((b, e))
            can = True if i < n - 1 else bool(c.bool('last_can'))
            certs.append(T.make_delegate_key_cert(seeds[i], pubs[i + 1], b, e, can))
        fl, al = '%02x' % flag, '%02x' % allowed
        if chain:
            lock = T.make_delegate_key_chain_lock(pubs[0], al)
            wit = T.make_delegate_key_chain_witness(seeds[n], list(reversed(certs)), sf, fl)
        else:
            lock = T.make_delegate_key_lock(pubs[0], al)
            wit = T.make_delegate_key_witness(seeds[n], certs[0], sf, fl)
        r = outcome_of(F.run_auth_scripts, [wit, lock], sf)
    c.check('never_raises', r[0] == 'ok', got=repr(r)[:200])
    if r[0] != 'ok':
        return
    now = stubs.stub_time()
    thr = pkg.functions.flags['ts_threshold']
    slack = mk_bool(z3.Or(thr <= 0, zi(t) - zi(now) < thr))
    inside = sym_and(*[sym_and(t >= b, t < e) for b, e in wins])
    permitted = (flag & ~allowed & 0xff) == 0
    want = sym_and(inside, slack, permitted)
    c.check('builder_chain_unlocks_exactly_inside_every_window', r[1] == want, n=n, chain=chain)
    tt = r[1] is True
    c.reach('builder_true' if tt else 'builder_false')
    c.observe(verdict=r[1])


def _real_builders(inputs, params):
    import tapescript
    import tapescript.tools as RT
    from nacl.signing import SigningKey
    n, chain = params['n'], params['chain']
    sf = {k: v for k, v in inputs.items() if k.startswith('sigfield')}
    sf['timestamp'] = inputs['t']
    seeds = [inputs[f'seed{i}'] for i in range(n + 1)]
    pubs = [bytes(SigningKey(s).verify_key) for s in seeds]
    with pinned_clock(inputs.get('now', 0)):
        certs = []
        for i in range(n):
            can = True if i < n - 1 else bool(inputs.get('last_can', True))
            certs.append(RT.make_delegate_key_cert(seeds[i], pubs[i + 1], inputs[f'begin{i}'], inputs[f'end{i}'], can))
        fl, al = '%02x' % params['flag'], '%02x' % params['allowed']
        if chain:
            lock = RT.make_delegate_key_chain_lock(pubs[0], al)
            wit = RT.make_delegate_key_chain_witness(seeds[n], list(reversed(certs)), dict(sf), fl)
        else:
            lock = RT.make_delegate_key_lock(pubs[0], al)
            wit = RT.make_delegate_key_witness(seeds[n], certs[0], dict(sf), fl)
        return tapescript.run_auth_scripts([wit, lock], dict(sf))


def c_builders(inputs, params):
    return {'verdict': _real_builders(inputs, params)}


def r_builders(inputs, params, obligation):
    import tapescript.functions as RF
    got = _real_builders(inputs, params)
    t, now = inputs['t'], inputs.get('now', 0)
    thr = RF.flags['ts_threshold']
    inside = all(inputs[f'begin{i}'] <= t < inputs[f'end{i}'] for i in range(params['n']))
    want = inside and (thr <= 0 or t - now < thr) and (params['flag'] & ~params['allowed'] & 0xff) == 0
    return {'reproduced': got != want, 'got': got, 'want': want, 't': t, 'now': now,
            'windows': [(inputs[f'begin{i}'], inputs[f'end{i}']) for i in range(params['n'])]}


def r_exact(inputs, params, obligation):
    """realise an arbitrary-state counterexample with real keys: certificates re-signed (or not) according to the
    oracle verdicts of the model are not recoverable from the inputs alone, so realise the two canonical scenarios:
    a fully valid chain at the model's times / markers, and the same chain with each single link corrupted"""
    import tapescript
    import tapescript.tools as RT
    import tapescript.functions as RF
    from nacl.signing import SigningKey
    n = params.get('n', 1)
    chain = 'n' in params
    allowed = params['allowed']
    t, now = inputs['t'], inputs.get('now', 0)
    sf = {k: v for k, v in inputs.items() if k.startswith('sigfield')}
    sf['timestamp'] = t
    fields = {int(k[8:]) - 1: v for k, v in sf.items() if k.startswith('sigfield')}
    sks = [SigningKey(bytes([i + 1]) * 32) for i in range(n + 1)]
    pubs = [bytes(k.verify_key) for k in sks]
    thr = RF.flags['ts_threshold']
    bad = []
    for corrupt in [None] + list(range(n)) + ['sig']:
        certs, oks = [], []
        for i in range(n):
            raw = inputs.get(f'cert{i}' if chain else 'cert', bytes(105))
            pre = pubs[i + 1] + raw[32:41]
            s = sks[i].sign(pre).signature
            if corrupt == i:
                s = bytes([s[0] ^ 1]) + s[1:]
            certs.append(pre + s)
        msg = _ref_message_c(fields, 0)
        sig = sks[n].sign(msg).signature
        if corrupt == 'sig':
            sig = bytes([sig[0] ^ 1]) + sig[1:]
        marks = [inputs.get(f'mark{i}', b'\xff' if i < n - 1 else b'\x00') for i in range(n)]
        if chain:
            items = [sig]
            for i in reversed(range(n)):
                items += [marks[i], certs[i]]
            lock = RT.make_delegate_key_chain_lock(pubs[0], '%02x' % allowed)
        else:
            items = [sig, certs[0]]
            lock = RT.make_delegate_key_lock(pubs[0], '%02x' % allowed)
        with pinned_clock(now):
            stack = tapescript.Stack()
            for it in items:
                stack.put(it)
            tape = tapescript.Tape(lock.bytes)
            r = outcome_of(tapescript.run_tape, tape, stack, dict(sf))
        got = r[0] == 'ok' and stack.list() == [b'\xff']
        want = corrupt is None
        for i in range(n):
            cb = certs[i]
            b, e = int.from_bytes(cb[32:36], 'big'), int.from_bytes(cb[36:40], 'big')
            want = want and b <= t < e and (thr <= 0 or t - now < thr)
            if chain:
                d = (cb[40] & marks[i][0]) != 0
                want = want and (d if i < n - 1 else not d)
        if got != want:
            bad.append({'corrupt': corrupt, 'got': got, 'want': want})
    return {'reproduced': bool(bad), 'bad': bad[:3], 't': t, 'now': now}


def _p_lock(tier):
    als = (0, 3) if tier == 'quick' else (0, 1, 3, 255)
    out = [{'siglen': s, 'certlen': 105, 'allowed': a} for s in (64, 65) for a in als]
    out += [{'siglen': 64, 'certlen': cl, 'allowed': 0} for cl in (104, 106, 41, 0)] + [{'siglen': 63, 'certlen': 105, 'allowed': 0}]
    return out


def _p_chain(tier):
    ns = (1, 2) if tier == 'quick' else (1, 2, 3)
    return [{'n': n, 'allowed': a} for n in ns for a in ((0,) if tier == 'quick' else (0, 3))]


def _p_builders(tier):
    out = []
    ns = (1, 2, 3) if tier == 'quick' else (1, 2, 3, 4, 5)
    for n in ns:
        for fl, al in ((0, 0), (1, 3), (4, 3)):
            out.append({'n': n, 'chain': True, 'allowed': al, 'flag': fl})
    for fl, al in ((0, 0), (1, 3), (4, 3)):
        out.append({'n': 1, 'chain': False, 'allowed': al, 'flag': fl})
    return out


def _sig(v):
    return {'harness': v['harness'], 'obligation': v['obligation']}


HARNESSES = [
    HarnessSpec('certificate', h_cert, replay=r_cert, concrete=c_cert),
    HarnessSpec('lock', h_lock, _p_lock, replay=r_exact, signature=_sig),
    HarnessSpec('chain', h_chain, _p_chain, replay=r_exact, signature=_sig),
    HarnessSpec('builders', h_builders, _p_builders, replay=r_builders, concrete=c_builders, witness_every=5, signature=_sig),
]
