"""C20 — unassigned opcodes are soft-fork-safe no-ops."""
from __future__ import annotations
import z3
from sx.harness import HarnessSpec
from sx.core import SymInt, SymBool, mk_bool, zi, to_z3bool, sym_and, sym_or, sym_not, eng
from sx.values import SymBytes, mk_bytes, items_of, bytes_eq, from_bytes_model
from sx.containers import SDict
from sx import stubs
from . import vmstep
from .common import outcome_of, exc_name

FUNCTIONS = ['functions:NOP', 'functions:run_tape', 'functions:add_opcode', 'tools:add_soft_fork',
             'parsing:_get_nopcode_args', 'parsing:_get_OP_PUSH0_type_args', 'parsing:parse_next', 'parsing:get_args',
             'parsing:compile_script', 'parsing:decompile_script', 'parsing:add_opcode_parsing_handlers',
             'parsing:_get_additional_opcode_args', 'functions:bytes_to_int', 'classes:Tape.read', 'classes:Stack.get']
BOUNDS = {'quick': {'opcodes': 'all unassigned codes (symbolic byte >= 92)', 'count_byte': 'all 256 (symbolic)',
                    'stack_depth': '0..6', 'soft_fork_codes': 'symbolic free code (all 164)'},
          'thorough': {'opcodes': 'all unassigned codes', 'count_byte': 'all 256', 'stack_depth': '0..12',
                       'soft_fork_codes': 'symbolic free code (all 164)'}}
OUTSIDE = ['stacks deeper than the bound (NOP removes from the top; deeper items are not touched)',
           'fork ops outside the family "read the signed count byte, inspect and remove count items, may raise"',
           'scripts that wrap the forked op in OP_TRY_EXCEPT (excluded by the property)']
ASSUMPTIONS = ['soft-fork op family: reads one count byte exactly as NOP does (signed), raises for a negative count, removes '
               'count items, may raise depending on an arbitrary predicate of each removed item',
               'simulation lemma: all other opcodes run identical code on both VMs, so one-step simulation of the forked '
               'instruction plus induction over steps gives the claim for whole scripts']
EXPLANATION = ('(i) one dispatch step of run_tape for a symbolic unassigned opcode and symbolic count byte: removes exactly count '
               'items or raises, pointer +2, cache and remaining stack untouched; (ii) NOPn <count> compiles to [n, count] and '
               'decompiles back to a listing that recompiles to the same bytes, for symbolic n and count; (iii) an op of the '
               'family installed through the real add_soft_fork at a symbolic free code: whenever the upgraded VM step does not '
               'raise, the plain VM step does not raise and the post-states are equal; both VMs compile name, alias and NOPn '
               'spelling to identical bytes')
MUST_REACH = ['nop_ok', 'nop_negative', 'nop_underflow', 'compile_d', 'compile_x', 'decompile', 'fork_ok', 'fork_raise',
              'fork_compile']


def _n_ops(pkg):
    return len([k for k in pkg.functions.opcodes])


# ------------------------------------------------------------------------------ (i) NOP step through dispatch
def h_nop_step(c, pkg, depth):
    F, C = pkg.functions, pkg.classes
    code = c.int('code', 0, 255)
    c.assume(code >= vmstep.N_OPS)
    if depth > 20:
        c.assume(sym_or(code == vmstep.N_OPS, code == 255))      # deep stacks: the dispatch is covered by the shallow ones
    count = c.byte('count')
    items = [c.bytes(f"s{i}", i % 3) for i in range(depth)]
    stack = C.Stack()
    for it in items:
        stack.put(it)
    cache = SDict({'sigfield1': b'a', b'k': [b'v']})
    tape = C.Tape(mk_bytes([code, count]))
    r = outcome_of(F.run_tape, tape, stack, cache)
    signed = mk_bool(zi(count) >= 128)
    n = zi(count)
    c.check('cache_untouched', len(cache.wlog) == 0)
    post = vmstep.stack_items(stack)
    if r[0] == 'raise':
        e = r[1]
        if exc_name(e) == 'ScriptExecutionError' and 'NOP count must not be negative' in str(e):
            c.check('negative_count_error_only_for_count_byte_ge_128', signed)
            c.check('nothing_removed_on_negative_count', len(post) == depth)
            c.reach('nop_negative')
        else:
            c.check('underflow_only_if_count_exceeds_depth', sym_and(sym_not(signed), mk_bool(n > depth)), got=repr(e))
            c.reach('nop_underflow')
        c.observe(raised=True)
        return
    c.check('count_nonnegative_here', sym_not(signed))
    c.check('removed_exactly_count_items', mk_bool(n == depth - len(post)))
    c.check('remaining_items_untouched', all(a is b for a, b in zip(post, items)))
    c.check('pointer_advanced_by_two', tape.pointer == 2)
    c.check('no_flag_or_definition_change', len(tape.definitions) == 0)
    c.reach('nop_ok')
    c.observe(raised=False, depth=len(post))


def c_nop_step(inputs, params):
    import tapescript
    stack = tapescript.Stack()
    for i in range(params['depth']):
        stack.put(inputs.get(f's{i}', b''))
    tape = tapescript.Tape(bytes([inputs['code'], inputs['count']]))
    r = outcome_of(tapescript.run_tape, tape, stack, {'sigfield1': b'a', b'k': [b'v']})
    if r[0] == 'raise':
        return {'raised': True}
    return {'raised': False, 'depth': len(stack)}


def r_nop_step(inputs, params, obligation):
    import tapescript
    depth = params['depth']
    items = [inputs.get(f's{i}', b'') for i in range(depth)]
    stack = tapescript.Stack()
    for it in items:
        stack.put(it)
    cache = vmstep.RecDict({'sigfield1': b'a', b'k': [b'v']})
    tape = tapescript.Tape(bytes([inputs['code'], inputs['count']]))
    r = outcome_of(tapescript.run_tape, tape, stack, cache)
    cnt = inputs['count'] - 256 if inputs['count'] >= 128 else inputs['count']
    if cnt < 0 or cnt > depth:
        ok = r[0] == 'raise' and (cnt >= 0 or len(stack) == depth)
    else:
        ok = r[0] == 'ok' and stack.list() == items[:depth - cnt] and tape.pointer == 2
    ok = ok and not cache.wlog
    if cnt >= 0 and r[0] == 'raise' and 'must not be negative' in str(r[1]):
        ok = False          # the negative-count error for a count that is not negative
    return {'reproduced': not ok, 'outcome': repr(r)[:200], 'stack': [x.hex() for x in stack.list()], 'count': cnt}


# ------------------------------------------------------------------------------ (ii) compile / decompile
def h_compile(c, pkg, prefix):
    P = pkg.parsing
    stubs.CONFIG.log2_max_bits = 64
    code = c.int('code', 0, 255)
    c.assume(code >= vmstep.N_OPS)
    code = eng().concretize(code.t, limit=300)          # the mnemonic is text: one path per code
    if prefix == 'd':
        n = c.int('n')
        c.assume(sym_and(n >= -300, n <= 300))
        src = f'NOP{code} d{n}'
        r = outcome_of(P.compile_script, src)
        fits = sym_and(n >= -128, n <= 127)
        if r[0] == 'raise':
            c.check('rejected_only_if_count_does_not_fit_signed_byte', sym_not(fits), got=repr(r[1]))
            c.reach('compile_rejected')
            c.observe(ok=False)
            return
        c.check('accepted_only_if_count_fits_signed_byte', fits)
        out = r[1]
        want_b = mk_bool(z3.If(n.t < 0, n.t + 256, n.t) == zi(out[1])) if len(out) == 2 else False
        c.check('compiles_to_code_and_count', sym_and(len(out) == 2, out[0] == code, want_b))
        c.reach('compile_d')
        c.observe(ok=True, out=out)
    else:
        b = c.byte('b')
        src = f'nop{code} x{mk_bytes([b]).hex()}'
        r = outcome_of(P.compile_script, src)
        c.check('x_operand_accepted', r[0] == 'ok', got=repr(r))
        if r[0] == 'ok':
            out = r[1]
            c.check('compiles_to_code_and_count', sym_and(len(out) == 2, out[0] == code, out[1] == b))
            c.reach('compile_x')
            c.observe(ok=True, out=out)


def c_compile(inputs, params):
    import tapescript
    code = inputs['code']
    if params['prefix'] == 'd':
        r = outcome_of(tapescript.compile_script, f"NOP{code} d{inputs['n']}")
    else:
        r = outcome_of(tapescript.compile_script, f"nop{code} x{inputs['b']:02x}")
    return {'ok': False} if r[0] == 'raise' else {'ok': True, 'out': r[1]}


def r_compile(inputs, params, obligation):
    got = c_compile(inputs, params)
    code = inputs['code']
    if params['prefix'] == 'd':
        n = inputs['n']
        want = {'ok': True, 'out': bytes([code, n % 256])} if -128 <= n <= 127 else {'ok': False}
    else:
        want = {'ok': True, 'out': bytes([code, inputs['b']])}
    return {'reproduced': got != want, 'got': repr(got), 'want': repr(want)}


def h_decompile(c, pkg):
    """decompile [code, count] and recompile the listing: identical bytes (round trip of NOPn)"""
    P = pkg.parsing
    stubs.CONFIG.log2_max_bits = 64
    code = c.int('code', 0, 255)
    c.assume(code >= vmstep.N_OPS)
    code = eng().concretize(code.t, limit=300)
    count = c.byte('count')
    data = mk_bytes([code, count])
    r = outcome_of(P.decompile_script, data)
    c.check('decompile_total', r[0] == 'ok', got=repr(r))
    if r[0] != 'ok':
        return
    lines = r[1]
    c.check('one_line', len(lines) == 1)
    c.check('listing_names_the_nop', lines[0].split()[0] == f'NOP{code}')
    c.input('listing', lines[0])
    r2 = outcome_of(P.compile_script, '\n'.join(lines))
    c.check('listing_recompiles', r2[0] == 'ok', got=repr(r2), count=count)
    if r2[0] == 'ok':
        c.check('round_trip_identical', sym_and(len(r2[1]) == 2, bytes_eq(r2[1], data)) if len(r2[1]) == 2 else False)
    c.reach('decompile')
    c.observe(roundtrip=(r2[0] == 'ok'))


def c_decompile(inputs, params):
    import tapescript
    data = bytes([inputs['code'], inputs['count']])
    r = outcome_of(lambda: tapescript.compile_script('\n'.join(tapescript.decompile_script(data))))
    return {'roundtrip': r[0] == 'ok'}


def r_decompile(inputs, params, obligation):
    import tapescript
    data = bytes([inputs['code'], inputs['count']])
    r = outcome_of(lambda: tapescript.compile_script('\n'.join(tapescript.decompile_script(data))))
    return {'reproduced': not (r[0] == 'ok' and r[1] == data), 'data': data.hex(), 'result': repr(r)[:200]}


# ------------------------------------------------------------------------------ (iii) soft fork simulation
def _fork_op(pkg, c, log):
    F = pkg.functions

    def OP_FORKED(tape, stack, cache):
        count = F.bytes_to_int(tape.read(1))
        pkg.errors.sert(count >= 0, 'forked op: negative count')
        from sx.sxbuiltins import sx_range
        for i in sx_range(count):
            item = stack.get()
            ok = c.bool(f'fork.accepts{i}')          # arbitrary predicate of the inspected item
            log.append(item)
            if not ok:
                raise pkg.errors.ScriptExecutionError('forked op: predicate failed')
    return OP_FORKED


def h_fork_step(c, pkg, depth):
    """pkg is a fresh instance: the real add_soft_fork mutates its opcode tables"""
    from sx.harness import package
    plain = package()                       # shared, unforked instance
    F, C, T = pkg.functions, pkg.classes, pkg.tools
    code = c.int('code', 0, 255)
    c.assume(code >= vmstep.N_OPS)
    code = eng().concretize(code.t, limit=300)
    log = []
    T.add_soft_fork(code, 'OP_FORKED', _fork_op(pkg, c, log), ['FRK'])
    c.check('forked_code_left_the_nop_table', code not in F.nopcodes and code in F.opcodes)
    count = c.byte('count')
    items = [c.bytes(f"s{i}", i % 3) for i in range(depth)]

    def run(p):
        stack = p.classes.Stack()
        for it in items:
            stack.put(it)
        cache = SDict({'sigfield1': b'a'})
        tape = p.classes.Tape(mk_bytes([code, count]))
        return outcome_of(p.functions.run_tape, tape, stack, cache), stack, tape, cache
    rn, sn, tn, cn = run(pkg)
    ro, so, to, co = run(plain)
    if rn[0] == 'raise':
        c.reach('fork_raise')
        c.observe(new_ok=False)
        return
    c.check('old_vm_does_not_raise_when_new_vm_passes', ro[0] == 'ok', got=repr(ro))
    if ro[0] == 'ok':
        a, b = vmstep.stack_items(sn), vmstep.stack_items(so)
        c.check('post_states_equal', len(a) == len(b) and all(x is y for x, y in zip(a, b)) and tn.pointer == to.pointer
                and len(cn.wlog) == 0 and len(co.wlog) == 0)
    c.reach('fork_ok')
    c.observe(new_ok=True)


def h_fork_compile(c, pkg):
    from sx.harness import package
    plain = package()
    stubs.CONFIG.log2_max_bits = 64
    T, P = pkg.tools, pkg.parsing
    code = c.int('code', 0, 255)
    c.assume(code >= vmstep.N_OPS)
    code = eng().concretize(code.t, limit=300)
    T.add_soft_fork(code, 'OP_FORKED', lambda t, s, ch: None, ['FRK'])
    n = c.int('n', 0, 127)
    outs = []
    for src in (f'OP_FORKED d{n}', f'op_forked d{n}', f'FRK d{n}', f'frk d{n}'):
        r = outcome_of(P.compile_script, f'true {src} false')
        c.check('name_and_alias_compile', r[0] == 'ok', got=repr(r), src=src)
        if r[0] != 'ok':
            return
        outs.append(r[1])
    ro = outcome_of(plain.parsing.compile_script, f'true NOP{code} d{n} false')
    c.check('old_vm_compiles_nop_spelling', ro[0] == 'ok', got=repr(ro))
    if ro[0] != 'ok':
        return
    for o in outs:
        c.check('identical_bytes_on_both_vms', len(o) == len(ro[1]) and bytes_eq(o, ro[1]))
    c.check('bytes_are_code_and_count', sym_and(len(ro[1]) == 4, ro[1][1] == code, ro[1][2] == n))
    # the forked VM decompiles with the new name and the listing recompiles to the same bytes
    rd = outcome_of(P.decompile_script, outs[0])
    c.check('forked_vm_decompiles', rd[0] == 'ok', got=repr(rd))
    if rd[0] == 'ok':
        c.check('listing_uses_new_name', any(l.split()[0] == 'OP_FORKED' for l in rd[1]))
        rr = outcome_of(P.compile_script, '\n'.join(rd[1]))
        c.check('forked_listing_round_trips', rr[0] == 'ok' and len(rr[1]) == len(outs[0]) and bytes_eq(rr[1], outs[0]))
    c.reach('fork_compile')


def _depths(tier):
    return (list(range(0, 7)) + [127, 128]) if tier == "quick" else (list(range(0, 13)) + [126, 127, 128, 129, 200])


HARNESSES = [
    HarnessSpec('nop_step', h_nop_step, lambda t: [{'depth': d} for d in _depths(t)], replay=r_nop_step,
                concrete=c_nop_step, witness_every=9),
    HarnessSpec('nop_compile', h_compile, [{'prefix': 'd'}, {'prefix': 'x'}], replay=r_compile, concrete=c_compile,
                witness_every=13),
    HarnessSpec('nop_decompile', h_decompile, replay=r_decompile, concrete=c_decompile, witness_every=13),
    # replay: a disagreement between the un-forked VM and a fork of the stated family is a deviation of the real NOP from "remove
    # count items, touch nothing else" - which is what r_nop_step demonstrates on the real package
    HarnessSpec('fork_step', h_fork_step, lambda t: [{'depth': d} for d in (0, 1, 2, 3) + ((5,) if t != 'quick' else ())],
                fresh_pkg=True, replay=r_nop_step),
    HarnessSpec('fork_compile', h_fork_compile, fresh_pkg=True),
]
