"""C15 — hash- and point-time-locked contracts: claim and refund paths are exact."""
from __future__ import annotations
import z3
from sx.harness import HarnessSpec
from sx.core import SymInt, SymBool, mk_bool, zi, to_z3bool, sym_and, sym_or, sym_not, eng
from sx.values import SymBytes, mk_bytes, items_of, bytes_eq, from_bytes_model
from sx.containers import SDict
from sx import stubs
from . import vmstep
from .common import outcome_of, exc_name, pinned_clock
from .c02 import ref_message, _subset, _ref_message_c
from .c13 import KeyOracle, _sigfields, _run_lock_from_state

FUNCTIONS = ['tools:make_htlc_sha256_lock', 'tools:make_htlc_shake256_lock', 'tools:make_htlc_witness', 'tools:make_htlc2_sha256_lock',
             'tools:make_htlc2_shake256_lock', 'tools:make_htlc2_witness', 'tools:make_ptlc_lock', 'tools:make_ptlc_witness',
             'tools:make_ptlc_refund_witness', 'functions:sign_with_scalar', 'functions:aggregate_points', 'functions:aggregate_scalars',
             'functions:clamp_scalar', 'functions:derive_key_from_seed', 'functions:H_small', 'functions:H_big',
             'functions:OP_SHA256', 'functions:OP_SHAKE256', 'functions:OP_EQUAL', 'functions:OP_IF_ELSE', 'functions:OP_CHECK_TIMESTAMP_VERIFY',
             'functions:OP_CHECK_SIG', 'functions:OP_EQUAL_VERIFY', 'functions:OP_DUP', 'functions:run_auth_scripts', 'parsing:compile_script']
BOUNDS = {'quick': {'preimages': 'symbolic, length 1, 2, 16 (arbitrary state) / 16 (builders)', 'timeouts_and_times': 'now at build time, now at run time, timeout, '
                    't: symbolic integers, deadline < 2^40', 'digest_sizes': 'sha256; shake256 with 20 bytes, and 1, 15, 16, 32 bytes for one configuration per lock kind and path', 'flags': 'allowed 00 and 03',
                    'tweaked_ptlc': 'lock side only (the lock pushes receiver + tweak point computed by aggregate_points in the algebra model); the '
                                    'sign_with_scalar(x + t) signature identity is checked under C17'},
          'thorough': {'preimages': 'lengths 1, 2, 16, 32, 64', 'timeouts_and_times': 'as quick', 'digest_sizes': 'shake256 with 1, 2, 8, 15, 16, 17, 20, 32, 64 bytes',
                       'flags': '00, 01, 03, ff', 'tweaked_ptlc': 'as quick'}}
OUTSIDE = ['SHA-256 / SHAKE-256 / Ed25519 themselves', 'preimage lengths outside the list (the hash is an uninterpreted function of length and value)']
ASSUMPTIONS = ['hash stubs with collision freedom (a "wrong preimage" is one whose digest differs)', 'signature oracle for the untweaked paths; group-algebra '
               'model (DESIGN 2.4) for the tweaked PTLC', 'clock stub: one symbolic value while the lock is built, another while it is run',
               'refund path as documented: the refund witness supplies a preimage item that does not hash to the digest']
EXPLANATION = ('each of the four HTLC locks and the PTLC lock is built by the real builder (symbolic keys, digest, timeout, build-time clock) and run '
               'from an arbitrary witness state with symbolic t and run-time clock; verdict = reference predicate (hash path / time path); builder '
               'witnesses succeed exactly when their path condition holds')
MUST_REACH = ['htlc_claim', 'htlc_refund', 'htlc_reject', 'ptlc_claim', 'ptlc_refund', 'builder_claim', 'builder_refund_true',
              'builder_refund_false']

KINDS = ['htlc_sha256', 'htlc_shake256', 'htlc2_sha256', 'htlc2_shake256']


def _clock(c):
    nb = c.int('now_build', 0, 2 ** 38)
    nr = c.int('now_run', 0)
    return nb, nr


def _hash_of(kind, p, hs=20):
    return stubs.hash_model('sha256', p, 32) if 'sha256' in kind else stubs.hash_model('shake_256', p, hs)


def _build_htlc(pkg, kind, recv, refund, digest, timeout, al, hs=20):
    T = pkg.tools
    if kind == 'htlc_sha256':
        return T.make_htlc_sha256_lock(recv, refund, None, digest, timeout, al)
    if kind == 'htlc_shake256':
        return T.make_htlc_shake256_lock(recv, refund, None, digest, hs, timeout, al)
    if kind == 'htlc2_sha256':
        return T.make_htlc2_sha256_lock(recv, refund, None, digest, timeout, al)
    return T.make_htlc2_shake256_lock(recv, refund, None, digest, hs, timeout, al)


def _slack(t, now, thr):
    return z3.Or(thr <= 0, zi(t) - zi(now) < thr)


# ------------------------------------------------------------------------------ HTLC exactness
def h_htlc_exact(c, pkg, kind, plen, siglen, allowed, keylen=32, hs=20):
    stubs.CONFIG.collision_free = True
    stubs.CONFIG.log2_max_bits = 48
    fields, sf = _sigfields(c, 0b011)
    t = c.int('t')
    sf['timestamp'] = t
    sf.wlog = []
    nb, nr = _clock(c)
    timeout = c.int('timeout', 0, 2 ** 38)
    recv, refund = c.bytes('receiver', 32), c.bytes('refund', 32)
    c.assume(sym_not(bytes_eq(recv, refund)))
    dlen = 32 if 'sha256' in kind else hs
    digest = c.bytes('digest', dlen)
    stubs.CONFIG.clock = lambda: nb
    lock = _build_htlc(pkg, kind, recv, refund, digest, timeout, '%02x' % allowed, hs)
    stubs.CONFIG.clock = lambda: nr
    sig = c.bytes('sig', siglen)
    p = c.bytes('p', plen)
    two = kind.startswith('htlc2')
    key = c.bytes('key', keylen) if two else None
    items = [sig, key, p] if two else [sig, p]
    ok, r, stack = _run_lock_from_state(pkg, lock.bytes, items, sf)
    thr = pkg.functions.flags['ts_threshold']
    hit = bytes_eq(_hash_of(kind, p, hs), digest)
    deadline = zi(nb) + zi(timeout)
    time_ok = mk_bool(z3.And(zi(t) >= deadline, _slack(t, nr, thr)))
    if siglen not in (64, 65) or (two and keylen != 32):
        c.check('malformed_witness_rejected', ok is False)
        c.reach('htlc_reject')
        return
    flag = sig[64] if siglen == 65 else 0
    msg = ref_message(fields, flag)
    perm = _subset(flag, allowed)
    if two:
        # the supplied key must hash (20 bytes) to the committed key of the path
        # (compared through the commitments, which is what the lock can check; for digests of >= 16 bytes the hash stub's collision
        # freedom makes this the same as equality of the keys)
        alg = 'sha256' if 'sha256' in kind else 'shake_256'
        hk = stubs.hash_model(alg, key, dlen)
        k_recv = bytes_eq(hk, stubs.hash_model(alg, recv, dlen))
        k_ref = bytes_eq(hk, stubs.hash_model(alg, refund, dlen))
        v = mk_bool(stubs.valid_term(key, msg, sig[:64]))
        want = sym_and(perm, v, sym_or(sym_and(hit, k_recv), sym_and(sym_not(hit), time_ok, k_ref)))
    else:
        v_recv = mk_bool(stubs.valid_term(recv, msg, sig[:64]))
        v_ref = mk_bool(stubs.valid_term(refund, msg, sig[:64]))
        want = sym_and(perm, sym_or(sym_and(hit, v_recv), sym_and(sym_not(hit), time_ok, v_ref)))
    c.check('verdict_equals_reference_predicate', ok == want, kind=kind)
    tt = ok is True or (ok is not False and bool(ok))
    if tt:
        c.reach('htlc_claim' if bool(hit) else 'htlc_refund')
    else:
        c.reach('htlc_reject')


# ------------------------------------------------------------------------------ PTLC exactness (no tweak)
def h_ptlc_exact(c, pkg, siglen, allowed, sellen=1):
    stubs.CONFIG.log2_max_bits = 48
    T = pkg.tools
    fields, sf = _sigfields(c, 0b011)
    t = c.int('t')
    sf['timestamp'] = t
    sf.wlog = []
    nb, nr = _clock(c)
    timeout = c.int('timeout', 0, 2 ** 38)
    recv, refund = c.bytes('receiver', 32), c.bytes('refund', 32)
    stubs.CONFIG.clock = lambda: nb
    lock = T.make_ptlc_lock(recv, refund, None, timeout, '%02x' % allowed)
    stubs.CONFIG.clock = lambda: nr
    sig = c.bytes('sig', siglen)
    selb = c.bytes('selector', sellen)
    ok, r, stack = _run_lock_from_state(pkg, lock.bytes, [sig, selb], sf)
    thr = pkg.functions.flags['ts_threshold']
    if siglen not in (64, 65):
        c.check('malformed_witness_rejected', ok is False)
        return
    sel = mk_bool(z3.Or(*[zi(x) != 0 for x in items_of(selb)])) if sellen else False
    flag = sig[64] if siglen == 65 else 0
    msg = ref_message(fields, flag)
    time_ok = mk_bool(z3.And(zi(t) >= zi(nb) + zi(timeout), _slack(t, nr, thr)))
    want = sym_and(_subset(flag, allowed),
                   sym_or(sym_and(sel, mk_bool(stubs.valid_term(recv, msg, sig[:64]))),
                          sym_and(sym_not(sel), time_ok, mk_bool(stubs.valid_term(refund, msg, sig[:64])))))
    c.check('verdict_equals_reference_predicate', ok == want)
    tt = ok is True or (ok is not False and bool(ok))
    if tt:
        c.reach('ptlc_claim' if bool(sel) else 'ptlc_refund')


# ------------------------------------------------------------------------------ builders end to end
def h_builders(c, pkg, kind, path, allowed, flag, hs=20):
    """lock from the preimage; claim witness by the receiver / refund witness by the refund key"""
    stubs.CONFIG.collision_free = True
    stubs.CONFIG.log2_max_bits = 48
    T, F = pkg.tools, pkg.functions
    fields, sf = _sigfields(c, 0b011)
    t = c.int('t')
    c.assume(t >= 0)
    sf['timestamp'] = t
    sf.wlog = []
    nb, nr = _clock(c)
    timeout = c.int('timeout', 0, 2 ** 38)
    rs, fs = c.bytes('receiver_seed', 32), c.bytes('refund_seed', 32)
    c.assume(sym_not(bytes_eq(rs, fs)))
    recv, refund = stubs.pub_of_seed(rs), stubs.pub_of_seed(fs)
    c.assume(sym_not(bytes_eq(recv, refund)))
    pre = c.bytes('preimage', 16)
    fl, al = '%02x' % flag, '%02x' % allowed
    with KeyOracle(pkg):
        stubs.CONFIG.clock = lambda: nb
        if kind == 'ptlc':
            lock = T.make_ptlc_lock(recv, refund, None, timeout, al)
        elif kind == 'htlc_sha256':
            lock = T.make_htlc_sha256_lock(recv, refund, pre, None, timeout, al)
        elif kind == 'htlc_shake256':
            lock = T.make_htlc_shake256_lock(recv, refund, pre, None, hs, timeout, al)
        elif kind == 'htlc2_sha256':
            lock = T.make_htlc2_sha256_lock(recv, refund, pre, None, timeout, al)
        else:
            lock = T.make_htlc2_shake256_lock(recv, refund, pre, None, hs, timeout, al)
        stubs.CONFIG.clock = lambda: nr
        seed = rs if path == 'claim' else fs
        other = c.bytes('wrong_preimage', 1)
        if kind != 'ptlc' and path == 'refund':
            # "wrong preimage" = one whose digest differs from the committed one (automatic for digests >= 16 bytes, stated for short ones)
            c.assume(sym_not(bytes_eq(_hash_of(kind, other, hs), _hash_of(kind, pre, hs))))
        if kind == 'ptlc':
            wit = T.make_ptlc_witness(seed, sf, None, fl) if path == 'claim' else T.make_ptlc_refund_witness(seed, sf, fl)
        elif kind.startswith('htlc2'):
            wit = T.make_htlc2_witness(seed, pre if path == 'claim' else other, sf, fl)
        else:
            wit = T.make_htlc_witness(seed, pre if path == 'claim' else other, sf, fl)
        r = outcome_of(F.run_auth_scripts, [wit, lock], sf)
    c.check('never_raises', r[0] == 'ok', got=repr(r)[:200])
    if r[0] != 'ok':
        return
    thr = pkg.functions.flags['ts_threshold']
    permitted = (flag & ~allowed & 0xff) == 0
    if path == 'claim':
        c.check('claim_witness_succeeds_at_any_time', r[1] == permitted, kind=kind)
        c.reach('builder_claim')
    else:
        want = sym_and(permitted, mk_bool(z3.And(zi(t) >= zi(nb) + zi(timeout), _slack(t, nr, thr))))
        c.check('refund_witness_succeeds_exactly_after_the_timeout', r[1] == want, kind=kind)
        c.reach('builder_refund_true' if r[1] is True else 'builder_refund_false')
    c.observe(verdict=r[1])


def _real_builders(inputs, params):
    import tapescript
    import tapescript.tools as RT
    import tapescript.functions as RF
    from nacl.signing import SigningKey
    kind, path = params['kind'], params['path']
    sf = {k: v for k, v in inputs.items() if k.startswith('sigfield')}
    sf['timestamp'] = inputs['t']
    rs, fs = inputs['receiver_seed'], inputs['refund_seed']
    recv, refund = bytes(SigningKey(rs).verify_key), bytes(SigningKey(fs).verify_key)
    pre = inputs.get('preimage', bytes(16))
    fl, al = '%02x' % params['flag'], '%02x' % params['allowed']
    timeout = inputs['timeout']
    with pinned_clock(inputs.get('now_build', 0)):
        if kind == 'ptlc':
            lock = RT.make_ptlc_lock(recv, refund, None, timeout, al)
        elif kind == 'htlc_sha256':
            lock = RT.make_htlc_sha256_lock(recv, refund, pre, None, timeout, al)
        elif kind == 'htlc_shake256':
            lock = RT.make_htlc_shake256_lock(recv, refund, pre, None, params.get('hs', 20), timeout, al)
        elif kind == 'htlc2_sha256':
            lock = RT.make_htlc2_sha256_lock(recv, refund, pre, None, timeout, al)
        else:
            lock = RT.make_htlc2_shake256_lock(recv, refund, pre, None, params.get('hs', 20), timeout, al)
    with pinned_clock(inputs.get('now_run', 0)):
        seed = rs if path == 'claim' else fs
        other = inputs.get('wrong_preimage', b'\x00')
        if kind == 'ptlc':
            wit = RT.make_ptlc_witness(seed, dict(sf), None, fl) if path == 'claim' else RT.make_ptlc_refund_witness(seed, dict(sf), fl)
        elif kind.startswith('htlc2'):
            wit = RT.make_htlc2_witness(seed, pre if path == 'claim' else other, dict(sf), fl)
        else:
            wit = RT.make_htlc_witness(seed, pre if path == 'claim' else other, dict(sf), fl)
        return tapescript.run_auth_scripts([wit, lock], dict(sf))


def c_builders(inputs, params):
    return {'verdict': _real_builders(inputs, params)}


def r_builders(inputs, params, obligation):
    import tapescript.functions as RF
    got = _real_builders(inputs, params)
    permitted = (params['flag'] & ~params['allowed'] & 0xff) == 0
    thr = RF.flags['ts_threshold']
    t, nb, nr = inputs['t'], inputs.get('now_build', 0), inputs.get('now_run', 0)
    if params['path'] == 'claim':
        want = permitted
    else:
        want = permitted and t >= nb + inputs['timeout'] and (thr <= 0 or t - nr < thr)
    return {'reproduced': got != want, 'got': got, 'want': want, 't': t, 'now_build': nb, 'now_run': nr, 'timeout': inputs['timeout']}


def r_exact(inputs, params, obligation):
    """realise with real keys / hashes: claim and refund scenarios at the model's times, plus wrong-key and
    wrong-preimage variants; the concrete oracle uses real verification and real digests"""
    import hashlib
    import tapescript
    import tapescript.tools as RT
    import tapescript.functions as RF
    from nacl.signing import SigningKey
    kind = params.get('kind', 'ptlc')
    allowed = params['allowed']
    sf = {k: v for k, v in inputs.items() if k.startswith('sigfield')}
    t, nb, nr, timeout = inputs['t'], inputs.get('now_build', 0), inputs.get('now_run', 0), inputs['timeout']
    sf['timestamp'] = t
    fields = {int(k[8:]) - 1: v for k, v in sf.items() if k.startswith('sigfield')}
    rk, fk, ok_ = SigningKey(b'\x01' * 32), SigningKey(b'\x02' * 32), SigningKey(b'\x03' * 32)
    recv, refund = bytes(rk.verify_key), bytes(fk.verify_key)
    pre = b'p' * 16
    hs = params.get('hs', 20)

    def H(x):
        return hashlib.sha256(x).digest() if 'sha256' in kind else hashlib.shake_256(x).digest(hs)
    thr = RF.flags['ts_threshold']
    time_ok = t >= nb + timeout and (thr <= 0 or t - nr < thr)
    al = '%02x' % allowed
    with pinned_clock(nb):
        if kind == 'ptlc':
            lock = RT.make_ptlc_lock(recv, refund, None, timeout, al)
        else:
            lock = {'htlc_sha256': lambda: RT.make_htlc_sha256_lock(recv, refund, None, H(pre), timeout, al),
                    'htlc_shake256': lambda: RT.make_htlc_shake256_lock(recv, refund, None, H(pre), hs, timeout, al),
                    'htlc2_sha256': lambda: RT.make_htlc2_sha256_lock(recv, refund, None, H(pre), timeout, al),
                    'htlc2_shake256': lambda: RT.make_htlc2_shake256_lock(recv, refund, None, H(pre), hs, timeout, al)}[kind]()
    msg = _ref_message_c(fields, 0)
    bad = []
    for signer, sname in ((rk, 'receiver'), (fk, 'refund'), (ok_, 'other')):
        sig = signer.sign(msg).signature
        pub = bytes(signer.verify_key)
        for second in ((pre, 'right'), (b'\x00', 'wrong')) if kind != 'ptlc' else ((b'\xff', 'claim'), (b'\x00', 'refund')):
            if kind == 'ptlc':
                items = [sig, second[0]]
                want = (sname == 'receiver') if second[1] == 'claim' else (sname == 'refund' and time_ok)
            elif kind.startswith('htlc2'):
                items = [sig, pub, second[0]]
                want = (sname == 'receiver') if second[1] == 'right' else (sname == 'refund' and time_ok)
            else:
                items = [sig, second[0]]
                want = (sname == 'receiver') if second[1] == 'right' else (sname == 'refund' and time_ok)
            with pinned_clock(nr):
                stack = tapescript.Stack()
                for it in items:
                    stack.put(it)
                r = outcome_of(tapescript.run_tape, tapescript.Tape(lock.bytes), stack, dict(sf))
            got = r[0] == 'ok' and stack.list() == [b'\xff']
            if got != want:
                bad.append({'signer': sname, 'second': second[1], 'got': got, 'want': want})
    return {'reproduced': bool(bad), 'bad': bad[:4], 't': t, 'now_build': nb, 'now_run': nr, 'timeout': timeout}


# ------------------------------------------------------------------------------ tweaked PTLC (group algebra)
def h_ptlc_tweak(c, pkg):
    """make_ptlc_lock(receiver, refund, tweak_point) + make_ptlc_witness(seed, sigfields, tweak_scalar): the signature
    made with x + t satisfies the Ed25519 verification equation for X + T (group-algebra model)"""
    stubs.CONFIG.sig_mode = 'algebra'
    stubs.CONFIG.log2_max_bits = 48
    T, F = pkg.tools, pkg.functions
    fields, sf = _sigfields(c, 0b001)
    seed = c.bytes('seed', 32)
    tw = c.bytes('tweak', 32)
    refund = c.bytes('refund', 32)
    tws = F.clamp_scalar(tw)                      # callers pass a clamped scalar (as in the repository's tests)
    r0 = outcome_of(lambda: (F.derive_point_from_scalar(F.derive_key_from_seed(seed)), F.derive_point_from_scalar(tws)))
    if r0[0] != 'ok':
        c.reach('tweak_degenerate')
        return
    X, TP = r0[1]
    stubs.CONFIG.clock = lambda: 1000
    rl = outcome_of(T.make_ptlc_lock, X, refund, TP, 100, '00')
    if rl[0] != 'ok':
        c.reach('tweak_degenerate')
        return
    lock = rl[1]
    rw = outcome_of(T.make_ptlc_witness, seed, sf, tws, '00')
    c.check('tweaked_witness_builder_total', rw[0] == 'ok', got=repr(rw)[:200])
    if rw[0] != 'ok':
        return
    r = outcome_of(F.run_auth_scripts, [rw[1], lock], sf)
    c.check('tweaked_witness_unlocks_the_tweaked_lock', r[0] == 'ok' and r[1] is True, got=repr(r)[:200])
    c.reach('tweak_ok')


def r_tweak(inputs, params, obligation):
    import tapescript
    import tapescript.tools as RT
    import tapescript.functions as RF
    seed, tw = inputs['seed'], inputs['tweak']
    sf = {k: v for k, v in inputs.items() if k.startswith('sigfield')}
    tws = RF.clamp_scalar(tw)
    try:
        X = RF.derive_point_from_scalar(RF.derive_key_from_seed(seed))
        TP = RF.derive_point_from_scalar(tws)
        lock = RT.make_ptlc_lock(X, inputs['refund'] if RF.nacl.bindings.crypto_core_ed25519_is_valid_point(inputs['refund'])
                                 else X, TP, 100, '00')
        wit = RT.make_ptlc_witness(seed, dict(sf), tws, '00')
        got = tapescript.run_auth_scripts([wit, lock], dict(sf))
    except BaseException as e:       # noqa
        return {'reproduced': False, 'note': f'degenerate input: {type(e).__name__}: {e}'}
    return {'reproduced': got is not True, 'got': got}


def _p_htlc(tier):
    out = []
    pls = (1, 16) if tier == 'quick' else (1, 2, 16, 32, 64)
    als = (0, 3) if tier == 'quick' else (0, 1, 3, 255)
    for kind in KINDS:
        for pl in pls:
            for sl in (64, 65):
                for al in als:
                    if tier == 'quick' and sl == 65 and al == 0 and pl != 16:
                        continue
                    out.append({'kind': kind, 'plen': pl, 'siglen': sl, 'allowed': al})
        out.append({'kind': kind, 'plen': 2, 'siglen': 63, 'allowed': 0})
        if kind.startswith('htlc2'):
            out.append({'kind': kind, 'plen': 2, 'siglen': 64, 'allowed': 0, 'keylen': 31})
        if 'shake' in kind:
            # digest sizes other than the default 20
            for hs in ((1, 15, 16, 32) if tier == 'quick' else (1, 2, 8, 15, 16, 17, 32, 64)):
                out.append({'kind': kind, 'plen': 2, 'siglen': 64, 'allowed': 0, 'hs': hs})
    return out


def _p_ptlc(tier):
    return [{'siglen': sl, 'allowed': al, 'sellen': k} for sl in (64, 65, 63) for al in (0, 3) for k in (1, 2, 0)]


def _p_builders(tier):
    out = []
    for kind in KINDS + ['ptlc']:
        for path in ('claim', 'refund'):
            for fl, al in ((0, 0), (1, 3), (4, 3)):
                out.append({'kind': kind, 'path': path, 'allowed': al, 'flag': fl})
            if 'shake' in kind:
                for hs in ((1, 15, 16, 32) if tier == 'quick' else (1, 2, 8, 15, 16, 17, 32, 64)):
                    out.append({'kind': kind, 'path': path, 'allowed': 0, 'flag': 0, 'hs': hs})
    return out


def _sig(v):
    return {'harness': v['harness'], 'obligation': v['obligation'], 'kind': v['params'].get('kind')}


HARNESSES = [
    HarnessSpec('htlc_exact', h_htlc_exact, _p_htlc, replay=r_exact, signature=_sig),
    HarnessSpec('ptlc_exact', h_ptlc_exact, _p_ptlc, replay=r_exact, signature=_sig),
    HarnessSpec('builders', h_builders, _p_builders, replay=r_builders, concrete=c_builders, witness_every=5, signature=_sig),
]
