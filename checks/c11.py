"""C11 — the compiler emits exactly the instructions written, in the documented encoding."""
from __future__ import annotations
import itertools
import z3
from sx.harness import HarnessSpec
from sx.core import SymInt, SymBool, mk_bool, zi, to_z3bool, sym_and, sym_or, sym_not, eng
from sx.values import SymBytes, mk_bytes, items_of, bytes_eq, from_bytes_model
from sx.containers import SDict
from sx import stubs
from .common import outcome_of, exc_name
from .c12 import NOARG, ONEBYTE, SIZED

FUNCTIONS = ['parsing:get_symbols', 'parsing:compile_script', 'parsing:assemble', 'parsing:parse_comptime', 'parsing:parse_next',
             'parsing:get_args', 'parsing:_get_OP_PUSH_args', 'parsing:_get_OP_PUSH0_type_args', 'parsing:_get_OP_PUSH1_type_args',
             'parsing:_get_OP_PUSH2_args', 'parsing:_get_OP_WRITE_CACHE_args', 'parsing:_get_OP_DIV_FLOAT_args',
             'parsing:_get_OP_SWAP_type_args', 'parsing:_get_OP_CHECK_MULTISIG_args', 'parsing:_get_OP_MERKLEVAL_args',
             'parsing:parse_if', 'parsing:parse_else', 'parsing:parse_try', 'parsing:parse_except', 'parsing:parse_def',
             'parsing:parse_loop', 'parsing:_find_matching_brace', 'parsing:set_variable', 'parsing:load_variable',
             'parsing:size_variable', 'parsing:define_macro', 'parsing:invoke_macro', 'parsing:is_hex', 'functions:int_to_bytes']
BOUNDS = {'quick': {'integer_operands': 'symbolic, |n| < 2^39 (exact-log2 region) for PUSH / sized operands; unbounded-range rejection is '
                    'covered for one-byte operands (|n| <= 400)', 'hex_operands': 'symbolic bytes of length 0,1,2,3,32,255,256,300; 65535 / '
                    '65536 with concrete content', 'string_operands': 'symbolic printable ASCII without quotes / whitespace, length 1..4',
                    'spellings': 'every key of opcode_aliases / opcodes_inverse in upper, lower and mixed case (enumerated from the tables)',
                    'blocks': 'abstract programs of nesting depth <= 2 over IF / IF-ELSE / hoisted IF / TRY / TRY-EXCEPT / DEF / LOOP with '
                              'brace and END_ terminators, comments, and 1..2 statements after every construct'},
          'thorough': {'integer_operands': 'as quick', 'hex_operands': 'as quick', 'string_operands': 'length 1..8',
                       'spellings': 'as quick', 'blocks': 'nesting depth <= 3'}}
OUTSIDE = ['float literals (concrete samples only)', 'string values containing quote characters or whitespace', 'macro bodies of more than 4 tokens',
           'symbolic source *text*: operands are symbolic payloads inside real tokens, structure and spellings are enumerated']
ASSUMPTIONS = ['symbolic operand payloads are placeholder characters inside real Python strings; the compiler inspects them only through '
               'bytes.fromhex / int() / bytes(.., "utf-8") (validated on every path by a concrete witness replay)',
               'reference encodings are written in this file from language_spec.md / docs.md, not taken from the implementation']
EXPLANATION = ('compile_script runs on source text whose operands are symbolic: (A) every instruction x operand kind against a reference '
               'encoding, inside "true <stmt> false" so that swallowed or duplicated neighbours show; (B) block constructs in every '
               'terminator style and nesting against a reference block assembler; (C) every alias / case spelling compiles like the '
               'canonical name; (D) variables, macros, comptime; (E) concatenation of statements')
MUST_REACH = ['operand_ok', 'operand_utf8', 'operand_rejected', 'block_ok', 'spelling_ok', 'sugar_ok']


def OPC(pkg, name):
    return pkg.functions.opcodes_inverse[name][0]


def minimal_int_ok(n, enc):
    """enc is the minimal big-endian two's-complement encoding of n (reference, non-forking)"""
    k = len(enc)
    val = from_bytes_model(enc, 'big', signed=True)
    conds = [val == n]
    if k > 1:
        conds.append(sym_not(sym_and(n >= -(2 ** (8 * (k - 1) - 1)), n < 2 ** (8 * (k - 1) - 1))))
    return sym_and(*conds)


def _compile_ctx(pkg, stmt):
    return outcome_of(pkg.parsing.compile_script, f'true {stmt} false')


def _strip_ctx(c, r, what):
    """out must be 01 <body> 00; returns body or None"""
    if r[0] != 'ok':
        return None
    out = r[1]
    ok = len(out) >= 2 and out[0] == 1 and out[len(out) - 1] == 0
    c.check('neighbours_kept_exactly_once', ok, what=what, out=out)
    return out[1:len(out) - 1] if len(out) >= 2 else None


# ------------------------------------------------------------------------------ (A) operand encoders
def h_operand(c, pkg, case, op=None, size=None):
    stubs.CONFIG.log2_max_bits = 48
    F = pkg.functions
    body = None
    if case == 'noarg':
        r = _compile_ctx(pkg, op.lower())
        body = _strip_ctx(c, r, op)
        c.check('accepted', r[0] == 'ok', got=repr(r)[:200])
        if body is not None:
            c.check('encoding', len(body) == 1 and body[0] == OPC(pkg, op))
    elif case == 'onebyte_d':
        n = c.int('n')
        c.assume(sym_and(n >= -400, n <= 400))
        r = _compile_ctx(pkg, f'{op} d{n}')
        fits = sym_and(n >= -128, n <= 127)
        if r[0] == 'raise':
            c.check('rejected_only_if_not_encodable', sym_not(fits), got=repr(r[1])[:160], op=op)
            c.reach('operand_rejected')
            c.observe(ok=False)
            return
        c.check('accepted_only_if_encodable', fits, op=op)
        body = _strip_ctx(c, r, op)
        if body is not None:
            c.check('encoding', sym_and(len(body) == 2, body[0] == OPC(pkg, op),
                                        mk_bool(zi(body[1]) == z3.If(n.t < 0, n.t + 256, n.t)) if len(body) == 2 else False), op=op)
    elif case == 'onebyte_x':
        b = c.bytes('b', size)
        r = _compile_ctx(pkg, f'{op} x{b.hex()}')
        if size > 1:
            c.check('rejected_only_if_not_encodable', r[0] == 'raise', op=op)
            c.reach('operand_rejected')
            return
        c.check('accepted', r[0] == 'ok', got=repr(r)[:200])
        body = _strip_ctx(c, r, op)
        if body is not None:
            want = b if size == 1 else b'\x00'
            c.check('encoding', len(body) == 2 and body[0] == OPC(pkg, op) and bytes_eq(body[1:], want), op=op)
    elif case == 'push_d':
        n = c.int('n')
        c.assume(sym_and(n >= -(2 ** 39), n < 2 ** 39))
        r = _compile_ctx(pkg, f'push d{n}')
        c.check('accepted', r[0] == 'ok', got=repr(r)[:200])
        body = _strip_ctx(c, r, 'push d')
        if body is not None:
            k = len(body)
            if k == 2:
                c.check('encoding', sym_and(body[0] == OPC(pkg, 'OP_PUSH0'), minimal_int_ok(n, body[1:])))
            else:
                c.check('encoding', sym_and(body[0] == OPC(pkg, 'OP_PUSH1'), body[1] == k - 2, k - 2 >= 2,
                                            minimal_int_ok(n, body[2:])))
    elif case == 'push_x':
        payload = c.bytes('payload', size) if size <= 300 else bytes(size)
        r = _compile_ctx(pkg, f'push x{payload.hex()}')
        if size == 0 or size > 65535:
            c.check('rejected_only_if_not_encodable', r[0] == 'raise', size=size)
            c.reach('operand_rejected')
            return
        c.check('accepted', r[0] == 'ok', got=repr(r)[:200])
        body = _strip_ctx(c, r, 'push x')
        if body is not None:
            if size == 1:
                want = bytes([OPC(pkg, 'OP_PUSH0')]) + payload
            elif size < 256:
                want = bytes([OPC(pkg, 'OP_PUSH1'), size]) + payload
            else:
                want = bytes([OPC(pkg, 'OP_PUSH2')]) + size.to_bytes(2, 'big') + payload
            c.check('encoding_smallest_push', len(body) == len(want) and bytes_eq(body, want), size=size)
    elif case == 'push_s':
        text = c.bytes('text', size)
        for x in items_of(text):
            c.assume(mk_bool(z3.And(x > 0x20, x < 0x7f, x != 0x22, x != 0x27)))
        s = text.decode('utf-8')
        for q in ('"', "'"):
            r = _compile_ctx(pkg, f's{q}{s}{q}'.join(['push ', '']))
            c.check('accepted', r[0] == 'ok', got=repr(r)[:200])
            body = _strip_ctx(c, r, 'push s')
            if body is not None:
                want = (bytes([OPC(pkg, 'OP_PUSH0')]) if size == 1 else bytes([OPC(pkg, 'OP_PUSH1'), size])) + text
                c.check('encoding_smallest_push', len(body) == len(want) and bytes_eq(body, want))
    elif case == 'sized_x':
        payload = c.bytes('payload', size)
        r = _compile_ctx(pkg, f'{op} x{payload.hex()}')
        if size > 255:
            c.check('rejected_only_if_not_encodable', r[0] == 'raise', op=op, size=size)
            c.reach('operand_rejected')
            return
        c.check('accepted', r[0] == 'ok', got=repr(r)[:200], op=op)
        body = _strip_ctx(c, r, op)
        if body is not None:
            want = bytes([OPC(pkg, op), size]) + payload
            c.check('encoding', len(body) == len(want) and bytes_eq(body, want), op=op)
    elif case == 'sized_d':
        n = c.int('n')
        c.assume(sym_and(n >= -(2 ** 39), n < 2 ** 39))
        r = _compile_ctx(pkg, f'{op} d{n}')
        c.check('accepted', r[0] == 'ok', got=repr(r)[:200], op=op)
        body = _strip_ctx(c, r, op)
        if body is not None and len(body) >= 3:
            c.check('encoding', sym_and(body[0] == OPC(pkg, op), body[1] == len(body) - 2, minimal_int_ok(n, body[2:])), op=op)
    elif case == 'sized_s':
        text = c.bytes('text', size)
        for x in items_of(text):
            c.assume(mk_bool(z3.And(x > 0x20, x < 0x7f, x != 0x22, x != 0x27)))
        r = _compile_ctx(pkg, f'{op} s"{text.decode("utf-8")}"')
        c.check('accepted', r[0] == 'ok', got=repr(r)[:200], op=op)
        body = _strip_ctx(c, r, op)
        if body is not None:
            want = bytes([OPC(pkg, op), size]) + text
            c.check('encoding', len(body) == len(want) and bytes_eq(body, want), op=op)
    elif case == 'sized_s_utf8':
        # a string literal of arbitrary (valid) UTF-8: the size byte counts bytes, not characters
        text = c.bytes('text', size)
        for x in items_of(text):
            c.assume(mk_bool(z3.Or(x >= 0x80, z3.And(x > 0x20, x < 0x7f, x != 0x22, x != 0x27, x != 0x23))))
        try:
            st = text.decode('utf-8')
        except UnicodeDecodeError:
            c.reach('operand_ok')
            return                      # not text: no such source exists
        for q in ('"', ''):
            r = _compile_ctx(pkg, f'{op} s{q}{st}{q}')
            c.check('accepted', r[0] == 'ok', got=repr(r)[:200], op=op)
            body = _strip_ctx(c, r, op)
            if body is not None:
                want = bytes([OPC(pkg, op), size]) + text
                c.check('encoding', len(body) == len(want) and bytes_eq(body, want), op=op, quote=q)
        c.reach('operand_ok')
        c.reach('operand_utf8')
        return
    elif case == 'write_cache':
        key = c.bytes('key', size)
        n = c.int('count')
        c.assume(sym_and(n >= 0, n <= 400))
        r = _compile_ctx(pkg, f'write_cache x{key.hex()} d{n}')
        ok = sym_and(size <= 255, n <= 255)
        if r[0] == 'raise':
            c.check('rejected_only_if_not_encodable', sym_not(ok), got=repr(r[1])[:160])
            c.reach('operand_rejected')
            return
        c.check('accepted_only_if_encodable', ok)
        body = _strip_ctx(c, r, 'write_cache')
        if body is not None and len(body) == size + 3:
            c.check('encoding', sym_and(body[0] == OPC(pkg, 'OP_WRITE_CACHE'), body[1] == size, bytes_eq(body[2:2 + size], key),
                                        body[2 + size] == n))
    elif case == 'write_cache_d':
        # decimal cache key: the same `d` value encoding every other instruction uses (minimal signed big-endian, at
        # least one byte), so that `write_cache d200 ..` and `read_cache d200` name the same key
        k = c.int('key_n')
        c.assume(sym_and(k >= 0, k < 2 ** 39))
        cnt = c.bytes('count_x', 1)
        r = _compile_ctx(pkg, f'write_cache d{k} x{cnt.hex()}')
        c.check('accepted', r[0] == 'ok', got=repr(r)[:200])
        body = _strip_ctx(c, r, 'write_cache d')
        if body is not None:
            c.check('encoding', len(body) >= 4 and sym_and(body[0] == OPC(pkg, 'OP_WRITE_CACHE'), body[1] == len(body) - 3,
                                                           minimal_int_ok(k, body[2:-1]), body[-1] == cnt[0]), size=len(body) - 3)
    elif case == 'write_cache_s':
        text = c.bytes('text', size)
        for x in items_of(text):
            c.assume(mk_bool(z3.And(x > 0x20, x < 0x7f, x != 0x22, x != 0x27)))
        for q in ('"', "'", ''):
            r = _compile_ctx(pkg, f'write_cache s{q}{text.decode("utf-8")}{q} d1')
            c.check('accepted', r[0] == 'ok', got=repr(r)[:200])
            body = _strip_ctx(c, r, 'write_cache s')
            if body is not None:
                want = bytes([OPC(pkg, 'OP_WRITE_CACHE'), size]) + text + b'\x01'
                c.check('encoding', len(body) == len(want) and bytes_eq(body, want), quote=q)
    elif case == 'fixed_x':
        # OP_DIV_FLOAT / OP_MOD_FLOAT x<4 bytes>, OP_MERKLEVAL x<32 bytes>
        want_n = 32 if op == 'OP_MERKLEVAL' else 4
        payload = c.bytes('payload', size)
        r = _compile_ctx(pkg, f'{op} x{payload.hex()}')
        if size != want_n:
            c.check('rejected_only_if_not_encodable', r[0] == 'raise', op=op, size=size)
            c.reach('operand_rejected')
            return
        c.check('accepted', r[0] == 'ok', got=repr(r)[:200], op=op)
        body = _strip_ctx(c, r, op)
        if body is not None:
            want = bytes([OPC(pkg, op)]) + payload
            c.check('encoding', len(body) == len(want) and bytes_eq(body, want), op=op)
    elif case == 'swap':
        a, b = c.int('a'), c.int('b')
        c.assume(sym_and(a >= 0, a <= 300, b >= 0, b <= 300))
        r = _compile_ctx(pkg, f'swap d{a} d{b}')
        ok = sym_and(a <= 255, b <= 255)
        if r[0] == 'raise':
            c.check('rejected_only_if_not_encodable', sym_not(ok), got=repr(r[1])[:160])
            c.reach('operand_rejected')
            return
        c.check('accepted_only_if_encodable', ok)
        body = _strip_ctx(c, r, 'swap')
        if body is not None and len(body) == 3:
            c.check('encoding', sym_and(body[0] == OPC(pkg, 'OP_SWAP'), body[1] == a, body[2] == b))
    elif case == 'multisig':
        fl = c.bytes('flags', 1)
        m, n = c.int('m'), c.int('nn')
        c.assume(sym_and(m >= 0, m <= 300, n >= 0, n <= 300))
        r = _compile_ctx(pkg, f'{op} x{fl.hex()} d{m} d{n}')
        ok = sym_and(m <= 255, n <= 255)
        if r[0] == 'raise':
            c.check('rejected_only_if_not_encodable', sym_not(ok), got=repr(r[1])[:160])
            c.reach('operand_rejected')
            return
        c.check('accepted_only_if_encodable', ok)
        body = _strip_ctx(c, r, op)
        if body is not None and len(body) == 4:
            c.check('encoding', sym_and(body[0] == OPC(pkg, op), body[1] == fl[0], body[2] == m, body[3] == n))
    elif case == 'float':
        import struct
        for lit, val in (('f1.5', 1.5), ('f-2', -2.0), ('f0', 0.0)):
            if op in ('OP_DIV_FLOAT', 'OP_MOD_FLOAT') and '.' in lit:
                continue        # documented: decimal point literals are not accepted for these two
            r = _compile_ctx(pkg, f'{op} {lit}')
            c.check('accepted', r[0] == 'ok', got=repr(r)[:200], op=op, lit=lit)
            body = _strip_ctx(c, r, op)
            if body is not None:
                want = bytes([OPC(pkg, op)]) + (b'' if op in ('OP_DIV_FLOAT', 'OP_MOD_FLOAT') else b'\x04') + struct.pack('!f', val)
                c.check('encoding', body == want, op=op, lit=lit, got=body)
    c.reach('operand_ok')
    if case != 'float':
        c.observe(ok=True, body=body)


def _real_stmt(inputs, params):
    case, op, size = params['case'], params.get('op'), params.get('size')
    h = lambda k: inputs.get(k, b'').hex()
    if case == 'noarg':
        return op.lower()
    if case == 'onebyte_d':
        return f"{op} d{inputs['n']}"
    if case == 'onebyte_x':
        return f"{op} x{h('b')}"
    if case == 'push_d':
        return f"push d{inputs['n']}"
    if case == 'push_x':
        return f"push x{(inputs.get('payload', b'') if size <= 300 else bytes(size)).hex()}"
    if case == 'push_s':
        return 'push s"' + inputs['text'].decode() + '"'
    if case == 'sized_x':
        return f"{op} x{h('payload')}"
    if case == 'sized_d':
        return f"{op} d{inputs['n']}"
    if case == 'sized_s':
        return f'{op} s"' + inputs['text'].decode() + '"'
    if case == 'write_cache':
        return f"write_cache x{h('key')} d{inputs['count']}"
    if case == 'sized_s_utf8':
        try:
            return f'{op} s"' + inputs['text'].decode('utf-8') + '"'
        except UnicodeDecodeError:
            return None
    if case == 'write_cache_d':
        return f"write_cache d{inputs['key_n']} x{h('count_x')}"
    if case == 'write_cache_s':
        return 'write_cache s"' + inputs['text'].decode() + '" d1'
    if case == 'fixed_x':
        return f"{op} x{h('payload')}"
    if case == 'swap':
        return f"swap d{inputs['a']} d{inputs['b']}"
    if case == 'multisig':
        return f"{op} x{h('flags')} d{inputs['m']} d{inputs['nn']}"
    return None


def c_operand(inputs, params):
    import tapescript
    stmt = _real_stmt(inputs, params)
    if stmt is None:
        return {}
    r = outcome_of(tapescript.compile_script, f'true {stmt} false')
    if r[0] != 'ok':
        return {'ok': False}
    out = r[1]
    return {'ok': True, 'body': out[1:-1]}


def _ref_int(n):
    k = 1
    while not -(2 ** (8 * k - 1)) <= n < 2 ** (8 * k - 1):
        k += 1
    return n.to_bytes(k, 'big', signed=True)


def _ref_push(data, RF):
    if len(data) == 1:
        return bytes([RF.opcodes_inverse['OP_PUSH0'][0]]) + data
    if len(data) < 256:
        return bytes([RF.opcodes_inverse['OP_PUSH1'][0], len(data)]) + data
    return bytes([RF.opcodes_inverse['OP_PUSH2'][0]]) + len(data).to_bytes(2, 'big') + data


def r_operand(inputs, params, obligation):
    """independent concrete reference for the statement"""
    import tapescript
    import tapescript.functions as RF
    case, op, size = params['case'], params.get('op'), params.get('size')
    stmt = _real_stmt(inputs, params)
    if stmt is None:
        return {'reproduced': False, 'note': 'concrete-only case'}
    r = outcome_of(tapescript.compile_script, f'true {stmt} false')
    code = lambda name: bytes([RF.opcodes_inverse[name][0]])
    want = None
    if case == 'noarg':
        want = code(op)
    elif case == 'onebyte_d':
        n = inputs['n']
        want = code(op) + bytes([n % 256]) if -128 <= n <= 127 else None
    elif case == 'onebyte_x':
        want = code(op) + (inputs.get('b', b'') or b'\x00') if size <= 1 else None
    elif case == 'push_d':
        want = _ref_push(_ref_int(inputs['n']), RF)
    elif case == 'push_x':
        data = inputs.get('payload', b'') if size <= 300 else bytes(size)
        want = _ref_push(data, RF) if 0 < size <= 65535 else None
    elif case == 'push_s':
        want = _ref_push(inputs['text'], RF)
    elif case == 'sized_x':
        want = code(op) + bytes([size]) + inputs.get('payload', b'') if size <= 255 else None
    elif case == 'sized_d':
        e = _ref_int(inputs['n'])
        want = code(op) + bytes([len(e)]) + e
    elif case == 'sized_s':
        want = code(op) + bytes([size]) + inputs['text']
    elif case == 'write_cache':
        want = code('OP_WRITE_CACHE') + bytes([size]) + inputs.get('key', b'') + bytes([inputs['count']]) \
            if size <= 255 and inputs['count'] <= 255 else None
    elif case == 'sized_s_utf8':
        want = code(op) + bytes([size]) + inputs['text']
    elif case == 'write_cache_d':
        e = _ref_int(inputs['key_n'])
        want = code('OP_WRITE_CACHE') + bytes([len(e)]) + e + inputs['count_x']
    elif case == 'write_cache_s':
        want = code('OP_WRITE_CACHE') + bytes([size]) + inputs['text'] + b'\x01'
    elif case == 'fixed_x':
        want = code(op) + inputs.get('payload', b'') if size == (32 if op == 'OP_MERKLEVAL' else 4) else None
    elif case == 'swap':
        want = code('OP_SWAP') + bytes([inputs['a'], inputs['b']]) if inputs['a'] <= 255 and inputs['b'] <= 255 else None
    elif case == 'multisig':
        want = code(op) + inputs['flags'] + bytes([inputs['m'], inputs['nn']]) if inputs['m'] <= 255 and inputs['nn'] <= 255 else None
    if want is None:
        return {'reproduced': r[0] == 'ok', 'stmt': stmt[:120], 'got': repr(r)[:160], 'want': 'rejection'}
    full = b'\x01' + want + b'\x00'
    return {'reproduced': not (r[0] == 'ok' and r[1] == full), 'stmt': stmt[:120], 'got': repr(r)[:200], 'want': full.hex()[:200]}


# ------------------------------------------------------------------------------ (B) blocks
SIMPLE = ['push x{P}', 'true', 'pop0', 'add_ints d2', 'push d{N}', 'read_cache x6b']


def _simple(c, idx, k):
    p = c.bytes(f'p{k}', 2)
    n = c.int(f'n{k}')
    c.assume(sym_and(n >= 0, n < 2 ** 20))
    return SIMPLE[idx].replace('{P}', p.hex()).replace('{N}', format(n) if isinstance(n, SymInt) else str(n))


def gen_programs(depth, counter):
    """abstract statement trees: ('s', idx) | ('if', hoist, body, else) | ('try', body, exc) | ('def', body) | ('loop', body)"""
    leaves = [[('s', 0)], [('s', 1), ('s', 4)], []]
    if depth == 0:
        return [[('s', 0)], [('s', 2), ('s', 3)]]
    inner = gen_programs(depth - 1, counter)
    picks = inner[:3]
    out = []
    for b in picks:
        out.append([('if', None, b, None)])
        out.append([('if', None, b, picks[0])])
        out.append([('if', [('s', 1)], b, None)])
        out.append([('if', [('s', 1), ('s', 2)], b, picks[-1])])
        out.append([('try', b, None)])
        out.append([('try', b, picks[0])])
        out.append([('loop', b)])
    out.append([('def', picks[0])])
    if depth == 1:
        # empty bodies and clauses (written but empty is not the same as not written)
        e, b = [], picks[0]
        out += [[('if', None, e, None)], [('if', None, b, e)], [('if', None, e, b)], [('if', None, e, e)], [('if', [('s', 1)], e, None)],
                [('try', e, None)], [('try', b, e)], [('try', e, b)], [('try', e, e)], [('loop', e)], [('def', e)]]
    return out


def render(c, prog, style, ctr):
    """source text of an abstract program in a terminator style ('brace' | 'end') plus the reference bytes"""
    src, ref = [], []
    for st in prog:
        s, r = render_stmt(c, st, style, ctr)
        src.append(s)
        ref.append(r)
    return ' '.join(src), ref


def render_stmt(c, st, style, ctr):
    kind = st[0]
    if kind == 's':
        ctr[0] += 1
        text = _simple(c, st[1], ctr[0])
        return text, ('s', text)
    if kind == 'if':
        _, hoist, body, els = st
        hs, hr = render(c, hoist, style, ctr) if hoist else ('', [])
        bs, br = render(c, body, style, ctr)
        word = ('OP_IF', 'if', 'If')[ctr[0] % 3]
        h = f' ( {hs} )' if hoist else ''
        if els is None:
            text = f'{word}{h} {{ {bs} }}' if style == 'brace' else f'{word}{h} {bs} END_IF'
            return text, ('if', hr, br, None)
        es, er = render(c, els, style, ctr)
        text = f'{word}{h} {{ {bs} }} else {{ {es} }}' if style == 'brace' else f'{word}{h} {bs} ELSE {es} end_if'
        return text, ('if', hr, br, er)
    if kind == 'try':
        _, body, exc = st
        bs, br = render(c, body, style, ctr)
        if exc is None:
            return f'try {{ {bs} }}', ('try', br, None)
        es, er = render(c, exc, style, ctr)
        text = f'OP_TRY {{ {bs} }} EXCEPT {{ {es} }}' if style == 'brace' else f'try {bs} except {es} end_except'
        return text, ('try', br, er)
    if kind == 'loop':
        bs, br = render(c, st[1], style, ctr)
        text = f'loop {{ {bs} }}' if style == 'brace' else f'OP_LOOP {bs} END_LOOP'
        return text, ('loop', br)
    if kind == 'def':
        bs, br = render(c, st[1], style, ctr)
        text = f'def 5 {{ {bs} }}' if style == 'brace' else f'OP_DEF d5 {bs} end_def'
        return text, ('def', br)
    raise ValueError(kind)


def ref_bytes(pkg, ref):
    """reference block assembler (from language_spec.md): concatenation in source order of the encodings"""
    P = pkg.parsing
    out = b''
    for r in ref:
        k = r[0]
        if k == 's':
            out = out + P.compile_script(r[1])          # a single simple statement (checked in (A))
        elif k == 'if':
            _, hr, br, er = r
            hb, bb = ref_bytes(pkg, hr), ref_bytes(pkg, br)
            if er is None:
                out = out + hb + bytes([OPC(pkg, 'OP_IF')]) + len(bb).to_bytes(2, 'big') + bb
            else:
                eb = ref_bytes(pkg, er)
                out = out + hb + bytes([OPC(pkg, 'OP_IF_ELSE')]) + len(bb).to_bytes(2, 'big') + bb + len(eb).to_bytes(2, 'big') + eb
        elif k == 'try':
            bb = ref_bytes(pkg, r[1])
            eb = ref_bytes(pkg, r[2]) if r[2] is not None else b''
            out = out + bytes([OPC(pkg, 'OP_TRY_EXCEPT')]) + len(bb).to_bytes(2, 'big') + bb + len(eb).to_bytes(2, 'big') + eb
        elif k == 'loop':
            bb = ref_bytes(pkg, r[1])
            out = out + bytes([OPC(pkg, 'OP_LOOP')]) + len(bb).to_bytes(2, 'big') + bb
        elif k == 'def':
            bb = ref_bytes(pkg, r[1])
            out = out + bytes([OPC(pkg, 'OP_DEF'), 5]) + len(bb).to_bytes(2, 'big') + bb
    return out


def h_block(c, pkg, depth, idx, style, after):
    stubs.CONFIG.log2_max_bits = 48
    prog = gen_programs(depth, None)[idx]
    ctr = [idx]
    tail = [('s', 0)] if after == 1 else [('s', 4), ('s', 1)]
    full = [('s', 1)] + prog + tail
    src, ref = render(c, full, style, ctr)
    c.input('src', src)
    r = outcome_of(pkg.parsing.compile_script, src)
    c.check('accepted', r[0] == 'ok', got=repr(r)[:300], src=src)
    if r[0] != 'ok':
        return
    want = ref_bytes(pkg, ref)
    c.check('bytes_equal_reference_assembly', len(r[1]) == len(want) and bytes_eq(r[1], want), got=r[1], want=want, src=src)
    c.reach('block_ok')
    c.observe(out=r[1])


def c_block(inputs, params):
    import tapescript
    return {'out': tapescript.compile_script(inputs['src'])}


def r_block(inputs, params, obligation):
    """concrete: compare with the reference assembler run on the real package"""
    import tapescript

    class RealPkg:
        parsing = tapescript.parsing
        functions = tapescript.functions

    class CC:
        """concrete stand-in for the path context: replays the symbolic payloads from the counterexample"""
        def bytes(self, name, n):
            return inputs.get(name, bytes(n))

        def int(self, name, *a):
            return inputs.get(name, 0)

        def assume(self, *a):
            pass
    prog = gen_programs(params['depth'], None)[params['idx']]
    tail = [('s', 0)] if params['after'] == 1 else [('s', 4), ('s', 1)]
    full = [('s', 1)] + prog + tail
    src, ref = render(CC(), full, params['style'], [params['idx']])
    r = outcome_of(tapescript.compile_script, src)
    want = ref_bytes(RealPkg, ref)
    return {'reproduced': not (r[0] == 'ok' and r[1] == want), 'src': src[:300], 'got': repr(r)[:300], 'want': want.hex()[:300]}


# ------------------------------------------------------------------------------ (C) spellings
def h_spelling(c, pkg, group):
    stubs.CONFIG.log2_max_bits = 48
    F, P = pkg.functions, pkg.parsing
    names = sorted(set(F.opcodes_inverse) | set(F.opcode_aliases))
    b = c.bytes('b', 1)
    k = c.bytes('k', 2)
    n = 0
    for name in names[group::8]:
        canon = F.opcode_aliases.get(name, name)
        if canon not in F.opcodes_inverse:
            continue
        if canon in NOARG:
            operand = ''
        elif canon in ONEBYTE:
            operand = f' x{b.hex()}'
        elif canon in SIZED or canon in ('OP_PUSH1', 'OP_DIV_INT', 'OP_MOD_INT'):
            operand = f' x{k.hex()}'
        else:
            continue
        want = P.compile_script(f'true {canon}{operand} false')
        mixed = ''.join(ch.lower() if i % 2 else ch.upper() for i, ch in enumerate(name))
        for sp in (name.upper(), name.lower(), mixed):
            r = outcome_of(P.compile_script, f'true {sp}{operand} false')
            c.check('every_spelling_compiles_like_the_canonical_name',
                    r[0] == 'ok' and len(r[1]) == len(want) and bytes_eq(r[1], want), spelling=sp, canonical=canon)
            n += 1
    c.check('spellings_enumerated', n > 0)
    c.reach('spelling_ok')


def r_spelling(inputs, params, obligation):
    import tapescript
    import tapescript.functions as RF
    names = sorted(set(RF.opcodes_inverse) | set(RF.opcode_aliases))
    bad = []
    for name in names[params['group']::8]:
        canon = RF.opcode_aliases.get(name, name)
        if canon in NOARG:
            operand = ''
        elif canon in ONEBYTE:
            operand = f" x{inputs.get('b', b'0').hex()}"
        elif canon in SIZED or canon in ('OP_PUSH1', 'OP_DIV_INT', 'OP_MOD_INT'):
            operand = f" x{inputs.get('k', b'00').hex()}"
        else:
            continue
        want = outcome_of(tapescript.compile_script, f'true {canon}{operand} false')
        mixed = ''.join(ch.lower() if i % 2 else ch.upper() for i, ch in enumerate(name))
        for sp in (name.upper(), name.lower(), mixed):
            r = outcome_of(tapescript.compile_script, f'true {sp}{operand} false')
            if not (r[0] == 'ok' and want[0] == 'ok' and r[1] == want[1]):
                bad.append((sp, repr(r)[:80]))
    return {'reproduced': bool(bad), 'bad': bad[:5]}


# ------------------------------------------------------------------------------ (D) variables, macros, comptime; (E) concatenation
def h_sugar(c, pkg):
    stubs.CONFIG.log2_max_bits = 48
    P = pkg.parsing
    a = c.bytes('a', 2)
    b = c.bytes('b', 1)
    cs = P.compile_script
    cases = {
        # source : reference expansion (documented in language_spec.md)
        f'@= v [ x{a.hex()} x{b.hex()} ] true': f'push x{a.hex()} push x{b.hex()} write_cache x76 d2 true',
        'true @= v 1 false': 'true write_cache x76 d1 false',
        'true @v false': 'true read_cache x76 false',
        'true @#v false': 'true read_cache_size x76 false',
        f'!= mac [ p q ] {{ push p push q }} true !mac [ x{a.hex()} x{b.hex()} ] false':
            f'true push x{a.hex()} push x{b.hex()} false',
        f'!= mac [ p ] {{ push p dup }} !mac [ x{a.hex()} ] !mac [ x{b.hex()} ] pop0':
            f'push x{a.hex()} dup push x{b.hex()} dup pop0',
        f'true push ~ {{ push x{a.hex()} pop0 }} false': None,
        f'true push ~! {{ push x{a.hex()} push x{b.hex()} concat }} false': f'true push x{a.hex()}{b.hex()} false',
        f'# comment push x{b.hex()} # true " another " false': 'true false',
    }
    for src, ref in cases.items():
        r = outcome_of(cs, src)
        c.check('sugar_accepted', r[0] == 'ok', got=repr(r)[:300], src=src)
        if r[0] != 'ok':
            continue
        if ref is None:
            inner = cs(f'push x{a.hex()} pop0')
            want = b'\x01' + bytes([OPC(pkg, 'OP_PUSH1'), len(inner)]) + inner + b'\x00'
        else:
            want = cs(ref)
        c.check('sugar_expands_as_documented', len(r[1]) == len(want) and bytes_eq(r[1], want), src=src, got=r[1], want=want)
    # (E) concatenation: compile(s1 s2 s3) == compile(s1) + compile(s2) + compile(s3)
    stmts = [f'push x{a.hex()}', 'true if { pop0 }', f'write_cache x{b.hex()} d1', 'try { verify } except { true }', 'loop { pop0 false }']
    for x, y, z in itertools.permutations(stmts, 3):
        whole = cs(f'{x} {y} {z}')
        parts = cs(x) + cs(y) + cs(z)
        c.check('program_is_concatenation_of_statements', len(whole) == len(parts) and bytes_eq(whole, parts), src=f'{x} {y} {z}')
    c.reach('sugar_ok')


def r_sugar(inputs, params, obligation):
    """the harness function itself on the real package with the counterexample's operand values"""
    from sx.harness import auto_replay
    return auto_replay(h_sugar)(inputs, params, obligation)


# ------------------------------------------------------------------------------ parameters
def _p_operand(tier):
    out = [{'case': 'noarg', 'op': op} for op in NOARG]
    for op in ONEBYTE:
        out.append({'case': 'onebyte_d', 'op': op})
        for s in (0, 1, 2):
            out.append({'case': 'onebyte_x', 'op': op, 'size': s})
    out.append({'case': 'push_d'})
    for s in (0, 1, 2, 3, 32, 255, 256, 300, 65535, 65536):
        out.append({'case': 'push_x', 'size': s})
    for s in ((1, 2, 4) if tier == 'quick' else (1, 2, 3, 4, 8)):
        out.append({'case': 'push_s', 'size': s})
    for op in SIZED + ['OP_DIV_INT', 'OP_MOD_INT']:
        for s in (0, 1, 3, 255, 256):
            out.append({'case': 'sized_x', 'op': op, 'size': s})
        out.append({'case': 'sized_d', 'op': op})
        out.append({'case': 'sized_s', 'op': op, 'size': 3})
        out.append({'case': 'sized_s_utf8', 'op': op, 'size': 2})
        if tier != 'quick' or op in ('OP_READ_CACHE', 'OP_GET_VALUE'):
            out.append({'case': 'sized_s_utf8', 'op': op, 'size': 3})
    for s in (0, 1, 9, 255, 256):
        out.append({'case': 'write_cache', 'size': s})
    out.append({'case': 'write_cache_d'})
    for s in (1, 3):
        out.append({'case': 'write_cache_s', 'size': s})
    for op in ('OP_DIV_FLOAT', 'OP_MOD_FLOAT'):
        for s in (3, 4, 5):
            out.append({'case': 'fixed_x', 'op': op, 'size': s})
    for s in (31, 32, 33):
        out.append({'case': 'fixed_x', 'op': 'OP_MERKLEVAL', 'size': s})
    out.append({'case': 'swap'})
    for op in ('OP_CHECK_MULTISIG', 'OP_CHECK_MULTISIG_VERIFY'):
        out.append({'case': 'multisig', 'op': op})
    for op in ('OP_DIV_FLOAT', 'OP_MOD_FLOAT', 'OP_READ_CACHE', 'OP_GET_VALUE'):
        out.append({'case': 'float', 'op': op})
    return out


def _p_block(tier):
    out = []
    depths = (1, 2) if tier == 'quick' else (1, 2, 3)
    for d in depths:
        n = len(gen_programs(d, None))
        for i in range(n):
            for style in ('brace', 'end'):
                for after in (1, 2):
                    out.append({'depth': d, 'idx': i, 'style': style, 'after': after})
    return out


def _sig(v):
    p = v['params']
    return {'harness': v['harness'], 'obligation': v['obligation'], 'style': p.get('style'), 'case': p.get('case')}


HARNESSES = [
    HarnessSpec('operand', h_operand, _p_operand, replay=r_operand, concrete=c_operand, witness_every=3, signature=_sig),
    HarnessSpec('block', h_block, _p_block, replay=r_block, concrete=c_block, witness_every=2, signature=_sig),
    HarnessSpec('spelling', h_spelling, [{'group': g} for g in range(8)], replay=r_spelling, signature=_sig),
    HarnessSpec('sugar', h_sugar, replay=r_sugar, signature=_sig),
]
