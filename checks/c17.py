"""C17 — adapter signatures are verifiable encryptions of a valid signature."""
from __future__ import annotations
import z3
from sx.harness import HarnessSpec
from sx.core import SymInt, SymBool, mk_bool, zi, to_z3bool, sym_and, sym_or, sym_not, eng
from sx import core as _core
from sx.values import SymBytes, mk_bytes, items_of, bytes_eq, from_bytes_model
from sx.containers import SDict
from sx import stubs, algebra
from .common import outcome_of, exc_name
from .c13 import _sigfields

FUNCTIONS = ['functions:OP_MAKE_ADAPTER_SIG_PUBLIC', 'functions:OP_MAKE_ADAPTER_SIG_PRIVATE', 'functions:OP_CHECK_ADAPTER_SIG',
             'functions:OP_DECRYPT_ADAPTER_SIG', 'functions:clamp_scalar', 'functions:H_big', 'functions:H_small',
             'functions:derive_key_from_seed', 'functions:derive_point_from_scalar', 'functions:aggregate_points',
             'functions:sign_with_scalar', 'functions:bytes_are_same', 'functions:xor', 'functions:OP_CHECK_SIG', 'functions:OP_GET_MESSAGE',
             'functions:OP_CONCAT', 'tools:make_adapter_locks_pub', 'tools:make_adapter_locks_prv', 'tools:make_adapter_lock_pub',
             'tools:make_adapter_lock_prv', 'tools:make_adapter_decrypt', 'tools:decrypt_adapter', 'tools:make_adapter_witness',
             'tools:make_single_sig_lock', 'tools:make_ptlc_lock', 'tools:make_ptlc_witness']
BOUNDS = {'quick': {'message': 'symbolic, length 0..3 (longer messages only change the argument of an uninterpreted hash)',
                    'seed_and_tweak': '32 symbolic bytes each (clamped by the real clamp_scalar, so 0, 1, L-1 ... are models)',
                    'builders': 'one sigfield of 2 symbolic bytes, sigflags 00'},
          'thorough': {'message': 'length 0..8', 'seed_and_tweak': 'as quick', 'builders': 'two sigfields, sigflags 00 and 01'}}
OUTSIDE = ['the negative clauses "the adapter itself / a decryption with another scalar is not a valid signature" and the alteration clauses for R, T, '
           'message and key: in the model they are statements about hash independence, and the satisfiability queries that would be needed to '
           'exhibit counter-models over 256-bit integers do not finish (z3 unknown); only the sa alteration (pure algebra) is claimed',
           'libsodium encodings: non-canonical scalars / points, small-order points, cofactor (generic-group model)',
           'degenerate inputs in which an intermediate scalar is 0 mod L or a group operation yields the neutral element (probability ~2^-252; '
           'assumed away, libsodium raises for them)', 'single-bit corruptions of R, T, message and key: they change a hash input, and "the check '
           'then fails" is a statement about hash independence, not about the Python code; checked only for sa (pure algebra)']
ASSUMPTIONS = ['generic-group model of sx/algebra.py: points are discrete logs mod L, scalar_mul and scalarmult share one uninterpreted '
               'function M with M(c, x*G) = M(c, x)*G; SHA-512 is an uninterpreted function',
               'negative clauses ("the adapter itself / a decryption with another scalar is not a valid signature") additionally assume: the two '
               'challenge hashes of different inputs differ, M(., x) is injective for x != 0 (true for multiplication mod the prime L)',
               'constant-time compare: if the path condition implies equality of the two group elements the xor is zero (XorShortcut)']
EXPLANATION = ('the four adapter instructions, clamp_scalar, H_small, sign_with_scalar and the adapter builders are executed from the real '
               'source over the group-algebra stubs; identities are unsat queries: check passes, decryption yields (R+T, sa+t) which satisfies '
               'the RFC 8032 verification equation under X, t = s - sa mod L, altered sa fails, adapter / wrong scalar do not verify')
MUST_REACH = ['tweak_validity_ok', 'tweak_validity_rejected', 'public_check', 'decrypt_valid', 'recover_t', 'sa_altered', 'private_done', 'builders_ok', 'tweaked_ptlc']


def _setup(c, mlen):
    stubs.CONFIG.sig_mode = 'algebra'
    stubs.CONFIG.assume_nondegenerate = True
    _core.ABSTRACT['xor_uf'] = 'zero'
    _core.ABSTRACT['uf_digits'] = True
    seed = c.bytes('seed', 32)
    m = c.bytes('m', mlen)
    t = c.bytes('t', 32)
    return seed, m, t


def _make_public(pkg, seed, m, T, flags=None):
    F, C = pkg.functions, pkg.classes
    stack = C.Stack()
    stack.put(seed)
    stack.put(m)
    stack.put(T)
    cache = SDict()
    F.OP_MAKE_ADAPTER_SIG_PUBLIC(C.Tape(b'', flags=SDict(flags or {})), stack, cache)
    sa = stack.get()
    R = stack.get()
    return R, sa, cache, stack


def _check_adapter(pkg, X, T, m, R, sa):
    F, C = pkg.functions, pkg.classes
    st = C.Stack()
    for it in (sa, R, m, T, X):
        st.put(it)
    F.OP_CHECK_ADAPTER_SIG(C.Tape(b''), st, SDict())
    return st.get(), st


def _flow(c, pkg, mlen):
    F, C = pkg.functions, pkg.classes
    seed, m, t = _setup(c, mlen)
    tc = F.clamp_scalar(t)
    T = F.derive_point_from_scalar(tc)
    X = F.derive_point_from_scalar(F.derive_key_from_seed(seed))
    R, sa, cache, stack = _make_public(pkg, seed, m, T)
    return F, C, seed, m, t, tc, T, X, R, sa, stack


def _decrypt(F, C, sa, R, t):
    st = C.Stack()
    st.put(sa)
    st.put(R)
    st.put(t)
    F.OP_DECRYPT_ADAPTER_SIG(C.Tape(b'', flags=SDict()), st, SDict())
    s = st.get()
    RT = st.get()
    return RT, s, st


def h_public(c, pkg, mlen, part):
    """one identity per job so that every query has a minimal path condition"""
    with algebra.XorShortcut(pkg):
        F, C, seed, m, t, tc, T, X, R, sa, stack = _flow(c, pkg, mlen)
        if part == 'check':
            c.check('make_leaves_nothing_else', len(stack) == 0)
            c.check('outputs_are_32_bytes', len(R) == 32 and len(sa) == 32)
            out, st = _check_adapter(pkg, X, T, m, R, sa)
            c.check('adapter_passes_the_adapter_check', out == b'\xff')
            c.check('check_leaves_one_item', len(st) == 0)
            c.reach('public_check')
        elif part == 'sa_altered':
            sa2 = c.bytes('sa_altered', 32)
            eng().add(algebra.modL(algebra.scalar_int(sa2)) != algebra.modL(algebra.scalar_int(sa)))   # satisfiable: sa2 is free
            out2, _ = _check_adapter(pkg, X, T, m, R, sa2)
            c.check('altered_sa_fails_the_adapter_check', out2 == b'\x00')
            c.reach('sa_altered')
        elif part == 'decrypt':
            RT, s, st = _decrypt(F, C, sa, R, t)
            c.check('decrypt_leaves_nothing_else', len(st) == 0)
            want_RT = F.aggregate_points((R, T))
            c.check('decrypted_nonce_is_R_plus_T', True if RT is want_RT else bytes_eq(RT, want_RT))
            c.check('decrypted_scalar_is_sa_plus_t',
                    mk_bool(algebra.modL(algebra.scalar_int(s)) == algebra.modL(algebra.scalar_int(sa) + algebra.scalar_int(tc))))
            c.check('decrypted_signature_verifies_under_signer_key', algebra.ed25519_verify(X, m, RT + s))
            c.reach('decrypt_valid')
        elif part == 'check_sig':
            RT, s, st = _decrypt(F, C, sa, R, t)
            st = C.Stack()
            st.put(RT + s)
            st.put(X)
            r = outcome_of(F.OP_CHECK_SIG, C.Tape(b'\x00', plugins=SDict()), st, SDict({'sigfield1': m}))
            c.check('op_check_sig_accepts_the_decrypted_signature', r[0] == 'ok' and st.peek() == b'\xff', got=repr(r)[:120])
            c.reach('check_sig')
        else:
            RT, s, st = _decrypt(F, C, sa, R, t)
            rec = F.nacl.bindings.crypto_core_ed25519_scalar_sub(s, sa)
            c.check('tweak_scalar_is_recovered_as_s_minus_sa',
                    mk_bool(algebra.scalar_int(rec) == algebra.modL(algebra.scalar_int(tc))))
            c.reach('recover_t')


def h_negative(c, pkg, mlen):
    """(iv) the adapter itself and a decryption with another scalar are not valid signatures (idealised hashes)"""
    F, C = pkg.functions, pkg.classes
    seed, m, t = _setup(c, mlen)
    with algebra.XorShortcut(pkg):
        tc = F.clamp_scalar(t)
        T = F.derive_point_from_scalar(tc)
        x = F.derive_key_from_seed(seed)
        X = F.derive_point_from_scalar(x)
        R, sa, cache, stack = _make_public(pkg, seed, m, T)
        RT = F.aggregate_points((R, T))
        # idealisations (stated in ASSUMPTIONS): different challenge inputs give different challenges; M(., x) injective
        k_adapter = algebra._hram(RT, X, m)
        k_plain = algebra._hram(R, X, m)
        xk = algebra.modL(algebra.scalar_int(x))
        e = eng()
        e.add(z3.And(zi(k_adapter) != zi(k_plain),
                     algebra._M(zi(k_adapter), zi(xk)) != algebra._M(zi(k_plain), zi(xk))))
        ok = algebra.ed25519_verify(X, m, R + sa)
        c.check('adapter_itself_is_not_a_valid_signature', sym_not(ok))
        # decryption with another scalar t2 (different mod L)
        t2 = c.bytes('t2', 32)
        t2c = F.clamp_scalar(t2)
        c.assume(mk_bool(algebra.modL(algebra.scalar_int(t2c)) != algebra.modL(algebra.scalar_int(tc))))
        st = C.Stack()
        st.put(sa)
        st.put(R)
        st.put(t2)
        F.OP_DECRYPT_ADAPTER_SIG(C.Tape(b'', flags=SDict()), st, SDict())
        s2 = st.get()
        RT2 = st.get()
        k2 = algebra._hram(RT2, X, m)
        # the challenge for the wrong nonce R+T2 is another hash input: independent of the adapter's challenge
        d = zi(algebra.modL(algebra.scalar_int(t2c) - algebra.scalar_int(tc)))
        e.add(algebra._M(zi(k2), zi(xk)) != zi(algebra.modL(algebra._M(zi(k_adapter), zi(xk)) + d - zi(algebra.modL(
            algebra.scalar_int(t2c))) + zi(algebra.modL(algebra.scalar_int(t2c))))))
        ok2 = algebra.ed25519_verify(X, m, RT2 + s2)
        c.check('decryption_with_another_scalar_is_not_a_valid_signature', sym_not(ok2))
        c.reach('negative')


def h_private(c, pkg, mlen):
    """OP_MAKE_ADAPTER_SIG_PRIVATE: (T, R, sa) must pass the check and decrypt like the PUBLIC variant"""
    F, C = pkg.functions, pkg.classes
    seed, m, t = _setup(c, mlen)
    with algebra.XorShortcut(pkg):
        stack = C.Stack()
        stack.put(m)
        stack.put(t)
        stack.put(seed)
        F.OP_MAKE_ADAPTER_SIG_PRIVATE(C.Tape(b'', flags=SDict()), stack, SDict())
        sa = stack.get()
        R = stack.get()
        T = stack.get()
        c.check('make_leaves_nothing_else', len(stack) == 0)
        tc = F.clamp_scalar(t)
        c.check('tweak_point_is_t_times_G', bytes_eq(T, F.derive_point_from_scalar(tc)) if T is not None else False)
        X = F.derive_point_from_scalar(F.derive_key_from_seed(seed))
        out, _ = _check_adapter(pkg, X, T, m, R, sa)
        c.check('private_adapter_passes_the_adapter_check', out == b'\xff')
        st = C.Stack()
        st.put(sa)
        st.put(R)
        st.put(t)
        F.OP_DECRYPT_ADAPTER_SIG(C.Tape(b'', flags=SDict()), st, SDict())
        s = st.get()
        RT = st.get()
        ok = algebra.ed25519_verify(X, m, RT + s)
        c.check('private_adapter_decrypts_to_a_valid_signature', ok)
        c.reach('private_done')


def h_builders(c, pkg, variant, lite=False, flags='00'):
    """make_adapter_locks_pub / _prv + make_adapter_witness + decrypt_adapter end to end"""
    F, T_ = pkg.functions, pkg.tools
    seed, m, t = _setup(c, 2)
    stubs.CONFIG.log2_max_bits = 48
    stubs.CONFIG.alg_merge_points = not lite
    sf = SDict({'sigfield1': m})
    if flags != '00':
        sf['sigfield2'] = c.bytes('m2', 2)          # a non-zero sigflag masks a field that is present and non-empty
    sf.wlog = []
    with algebra.XorShortcut(pkg):
        tc = F.clamp_scalar(t)
        TP = F.derive_point_from_scalar(tc)
        X = F.derive_point_from_scalar(F.derive_key_from_seed(seed))
        algebra.mark_point(X)
        if variant == 'pub':
            s1, s3 = T_.make_adapter_locks_pub(X, TP, flags)
            s2 = T_.make_adapter_decrypt(t)
        else:
            s1, s2, s3 = T_.make_adapter_locks_prv(X, t, flags)
            # the private-tweak builder yields the very locks of the public-tweak builder for T = t*G and the same sigflags
            p1, p3 = T_.make_adapter_locks_pub(X, TP, flags)
            c.check('prv_and_pub_builders_agree', len(p1.bytes) == len(s1.bytes) and bytes_eq(p1.bytes, s1.bytes) and
                    len(p3.bytes) == len(s3.bytes) and bytes_eq(p3.bytes, s3.bytes), flags=flags)
        wit = T_.make_adapter_witness(seed, TP, sf, flags)
        c.check('adapter_witness_is_68_bytes', len(wit.bytes) == 68)
        r = outcome_of(F.run_auth_scripts, [wit, s1], sf)
        c.check('adapter_witness_satisfies_the_adapter_lock', r[0] == 'ok' and r[1] is True, got=repr(r)[:120], flags=flags)
        if lite and flags != '00':
            c.reach('builders_ok')
            return
        if lite:
            R, sa, _, _ = _make_public(pkg, seed, m, TP)
            c.check('witness_bytes_2_34_are_sa', bytes_eq(wit.bytes[2:34], sa))
            c.check('witness_bytes_36_68_are_R', bytes_eq(wit.bytes[36:68], R))
            c.reach('builders_ok')
            return
        sig = outcome_of(T_.decrypt_adapter, wit, t)
        c.check('decrypt_adapter_total', sig[0] == 'ok', got=repr(sig)[:160])
        if sig[0] == 'ok':
            c.check('decrypted_signature_is_64_bytes', len(sig[1]) == 64)
            w2 = T_.Script.from_src(f'push x{sig[1].hex()}')
            r2 = outcome_of(F.run_auth_scripts, [w2, s3], sf)
            c.check('decrypted_signature_satisfies_the_signature_lock', r2[0] == 'ok' and r2[1] is True, got=repr(r2)[:120])
            # the byte offsets used by release_left_amhl_lock: adapter_witness[2:34] is sa
            R, sa, _, _ = _make_public(pkg, seed, m, TP)
            c.check('witness_bytes_2_34_are_sa', bytes_eq(wit.bytes[2:34], sa))
            c.check('witness_bytes_36_68_are_R', bytes_eq(wit.bytes[36:68], R))
        # the single combined lock (deprecated builders)
        lock = T_.make_adapter_lock_pub(X, TP, '00') if variant == 'pub' else T_.make_adapter_lock_prv(X, t, '00')
        w3 = T_.Script.from_src(f'push x{t.hex()}') + wit
        r3 = outcome_of(F.run_auth_scripts, [w3, lock], sf)
        c.check('combined_adapter_lock_accepts_tweak_plus_adapter', r3[0] == 'ok' and r3[1] is True, got=repr(r3)[:120])
    c.reach('builders_ok')


def h_ptlc_tweak(c, pkg):
    """tweaked PTLC (property C15): make_ptlc_witness(seed, sigfields, tweak) unlocks make_ptlc_lock(X, refund, T)"""
    F, T_ = pkg.functions, pkg.tools
    seed, m, t = _setup(c, 2)
    stubs.CONFIG.log2_max_bits = 48
    stubs.CONFIG.alg_merge_points = True
    stubs.CONFIG.clock = lambda: 1000
    sf = SDict({'sigfield1': m})
    sf.wlog = []
    refund = c.bytes('refund', 32)
    with algebra.XorShortcut(pkg):
        tc = F.clamp_scalar(t)
        TP = F.derive_point_from_scalar(tc)
        X = F.derive_point_from_scalar(F.derive_key_from_seed(seed))
        algebra.mark_point(X)
        lock = T_.make_ptlc_lock(X, refund, TP, 100, '00')
        wit = T_.make_ptlc_witness(seed, sf, tc, '00')
        r = outcome_of(F.run_auth_scripts, [wit, lock], sf)
        c.check('tweaked_witness_unlocks_the_tweaked_lock', r[0] == 'ok' and r[1] is True, got=repr(r)[:160])
    c.reach('tweaked_ptlc')


# ------------------------------------------------------------------------------ concrete replays (real libsodium)
def _real_flow(inputs, private=False):
    import tapescript
    import tapescript.functions as RF
    from nacl.signing import VerifyKey, SigningKey
    seed, m, t = inputs['seed'], inputs.get('m', b''), inputs['t']
    res = {}
    tc = RF.clamp_scalar(t)
    T = RF.derive_point_from_scalar(tc)
    X = RF.derive_point_from_scalar(RF.derive_key_from_seed(seed))
    tape = tapescript.Tape(b'')
    RF.set_tape_flags(tape)
    st = tapescript.Stack()
    if private:
        for it in (m, t, seed):
            st.put(it)
        RF.OP_MAKE_ADAPTER_SIG_PRIVATE(tape, st, {})
        sa, R, T2 = st.get(), st.get(), st.get()
        res['T_ok'] = T2 == T
    else:
        for it in (seed, m, T):
            st.put(it)
        RF.OP_MAKE_ADAPTER_SIG_PUBLIC(tape, st, {})
        sa, R = st.get(), st.get()
    for it in (sa, R, m, T, X):
        st.put(it)
    RF.OP_CHECK_ADAPTER_SIG(tape, st, {})
    res['check'] = st.get() == b'\xff'
    for it in (sa, R, t):
        st.put(it)
    RF.OP_DECRYPT_ADAPTER_SIG(tape, st, {})
    s, RT = st.get(), st.get()
    try:
        VerifyKey(X).verify(m, RT + s)
        res['decrypted_valid'] = True
    except Exception:
        res['decrypted_valid'] = False
    rec = RF.nacl.bindings.crypto_core_ed25519_scalar_sub(s, sa)
    L = 2 ** 252 + 27742317777372353535851937790883648493
    res['recovered'] = int.from_bytes(rec, 'little') == int.from_bytes(tc, 'little') % L
    try:
        VerifyKey(X).verify(m, R + sa)
        res['adapter_valid'] = True
    except Exception:
        res['adapter_valid'] = False
    return res


def r_public(inputs, params, obligation):
    try:
        res = _real_flow(inputs)
    except BaseException as e:       # noqa
        return {'reproduced': False, 'note': f'degenerate input for libsodium: {type(e).__name__}: {e}'}
    bad = not (res['check'] and res['decrypted_valid'] and res['recovered']) or res['adapter_valid']
    return {'reproduced': bool(bad), **res}


def r_private(inputs, params, obligation):
    try:
        res = _real_flow(inputs, private=True)
    except BaseException as e:       # noqa
        return {'reproduced': False, 'note': f'degenerate input for libsodium: {type(e).__name__}: {e}'}
    bad = not (res['check'] and res['decrypted_valid'])
    return {'reproduced': bool(bad), **res}


def r_builders(inputs, params, obligation):
    import tapescript
    import tapescript.tools as RT
    import tapescript.functions as RF
    seed, m, t = inputs['seed'], inputs.get('m', b'\x00\x00'), inputs['t']
    fl = params.get('flags', '00')
    sf = {'sigfield1': m}
    if fl != '00':
        sf['sigfield2'] = inputs.get('m2', b'\x01\x02')
    try:
        tc = RF.clamp_scalar(t)
        TP = RF.derive_point_from_scalar(tc)
        X = RF.derive_point_from_scalar(RF.derive_key_from_seed(seed))
        agree = True
        if params.get('variant', 'pub') == 'pub':
            s1, s3 = RT.make_adapter_locks_pub(X, TP, fl)
        else:
            s1, s2, s3 = RT.make_adapter_locks_prv(X, t, fl)
            p1, p3 = RT.make_adapter_locks_pub(X, TP, fl)
            agree = p1.bytes == s1.bytes and p3.bytes == s3.bytes
        wit = RT.make_adapter_witness(seed, TP, dict(sf), fl)
        a = tapescript.run_auth_scripts([wit, s1], dict(sf))
        sig = RT.decrypt_adapter(wit, t)
        b = c3 = True
        if fl == '00':
            b = tapescript.run_auth_scripts([RT.Script.from_src(f'push x{sig.hex()}'), s3], dict(sf))
            lock = RT.make_adapter_lock_pub(X, TP, '00')
            c3 = tapescript.run_auth_scripts([RT.Script.from_src(f'push x{t.hex()}') + wit, lock], dict(sf))
    except BaseException as e:       # noqa
        return {'reproduced': False, 'note': f'degenerate input: {type(e).__name__}: {e}'}
    return {'reproduced': not (a and b and c3 and agree), 'adapter_lock': a, 'signature_lock': b, 'combined_lock': c3,
            'prv_pub_agree': agree}


def r_tweak(inputs, params, obligation):
    from .c15 import r_tweak as rt
    inp = dict(inputs)
    inp['tweak'] = inputs['t']
    inp['sigfield1'] = inputs.get('m', b'\x00\x00')
    return rt(inp, params, obligation)


def _sig(v):
    return {'harness': v['harness'], 'obligation': v['obligation']}


def _fallback(params, rng):
    return {'seed': rng.randbytes(32), 'm': rng.randbytes(params.get('mlen', 2)), 't': rng.randbytes(32),
            'sa_altered': rng.randbytes(32)}


def h_tweak_validity(c, pkg, which, mlen=2):
    """the tweak point handed to OP_CHECK_ADAPTER_SIG / OP_MAKE_ADAPTER_SIG_PUBLIC is arbitrary bytes: a verdict / an adapter is
    produced only for a valid point (with the neutral element as tweak the "adapter" is an ordinary signature)"""
    F, C = pkg.functions, pkg.classes
    seed, m, t = _setup(c, mlen)
    T = c.bytes('T', 32)
    with algebra.XorShortcut(pkg):
        valid_T = mk_bool(algebra._validpt(algebra.point_int(T)))
        if which == 'check':
            X = c.bytes('X', 32)
            R = c.bytes('R', 32)
            algebra.mark_point(X)
            algebra.mark_point(R)
            sa = c.bytes('sa', 32)
            r = outcome_of(_check_adapter, pkg, X, T, m, R, sa)
            if r[0] == 'ok':
                c.check('no_verdict_for_an_invalid_tweak_point', valid_T, verdict=r[1][0])
                c.reach('tweak_validity_ok')
            else:
                c.reach('tweak_validity_rejected')
        else:
            r = outcome_of(_make_public, pkg, seed, m, T)
            if r[0] == 'ok':
                c.check('no_adapter_for_an_invalid_tweak_point', valid_T)
                c.reach('tweak_validity_ok')
            else:
                c.reach('tweak_validity_rejected')


def r_tweak_validity(inputs, params, obligation):
    """the invalid-but-decodable point of the model is the neutral element: replay with its real encoding"""
    import tapescript
    import tapescript.functions as RF
    from nacl.signing import SigningKey
    T0 = b'\x01' + bytes(31)
    m = inputs.get('m', b'mm')
    sk = SigningKey(inputs.get('seed', bytes(32)))
    X = bytes(sk.verify_key)
    st = tapescript.Stack()
    if params['which'] == 'check':
        sig = sk.sign(m).signature
        for it in (sig[32:], sig[:32], m, T0, X):
            st.put(it)
        r = outcome_of(RF.OP_CHECK_ADAPTER_SIG, tapescript.Tape(b''), st, {})
    else:
        for it in (inputs.get('seed', bytes(32)), m, T0):
            st.put(it)
        r = outcome_of(RF.OP_MAKE_ADAPTER_SIG_PUBLIC, tapescript.Tape(b''), st, {})
    return {'reproduced': r[0] == 'ok', 'outcome': repr(r)[:160], 'stack': [x.hex() for x in st.list()][:3]}


def _ml(tier):
    return (0, 2, 3) if tier == 'quick' else (0, 1, 2, 3, 8)


HARNESSES = [
    HarnessSpec('public', h_public, lambda t: [{'mlen': n, 'part': p} for n in _ml(t)
                                               for p in ('check', 'sa_altered', 'decrypt', 'check_sig', 'recover')],
                witness_replay=True, replay=r_public, signature=_sig, fallback=_fallback),
    HarnessSpec('private', h_private, lambda t: [{'mlen': n} for n in (2,)], witness_replay=True, replay=r_private, signature=_sig, fallback=_fallback),
    HarnessSpec('builders', h_builders, lambda t: ([{'variant': 'pub', 'lite': True}, {'variant': 'prv', 'lite': True},
                                                    {'variant': 'pub', 'lite': True, 'flags': '01'}, {'variant': 'prv', 'lite': True, 'flags': '01'}]
                                                   if t == 'quick' else
                                                   # (the full builder flows - decrypt, signature lock, combined lock - did not finish within
                                                   # 80 minutes; their identities are the `public` parts plus the byte offsets checked here)
                                                   [{'variant': 'pub', 'lite': True}, {'variant': 'prv', 'lite': True},
                                                    {'variant': 'pub', 'lite': True, 'flags': '01'}, {'variant': 'prv', 'lite': True, 'flags': '01'},
                                                    {'variant': 'prv', 'lite': True, 'flags': '82'}, {'variant': 'pub', 'lite': True, 'flags': '7f'}]),
                witness_replay=True, replay=r_builders, signature=_sig, fallback=_fallback),
    HarnessSpec('tweak_validity', h_tweak_validity, [{'which': 'check'}, {'which': 'make'}], witness_replay=True, replay=r_tweak_validity, signature=_sig,
                fallback=lambda p, rng: {'seed': rng.randbytes(32), 'm': rng.randbytes(2)}),
    HarnessSpec('ptlc_tweak', h_ptlc_tweak, replay=r_tweak, signature=_sig, fallback=lambda p, rng: {**_fallback(p, rng), 'refund': rng.randbytes(32)}),
]
