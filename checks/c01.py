"""C01 — authorization verdict is exact; a witness cannot truncate or skip the lock."""
from __future__ import annotations
import z3
from sx.harness import HarnessSpec
from sx.core import SymInt, SymBool, mk_bool, zi, to_z3bool, sym_and, sym_or, sym_not, eng
from sx.values import SymBytes, mk_bytes, items_of, bytes_eq
from sx.containers import SDict
from sx import stubs
from . import vmstep
from .common import outcome_of, exc_name, pinned_clock, pinned_random

FUNCTIONS = ['functions:run_auth_scripts', 'functions:run_script', 'functions:run_tape', 'functions:set_tape_flags',
             'functions:OP_IF', 'functions:OP_IF_ELSE', 'functions:OP_TRY_EXCEPT', 'functions:OP_LOOP', 'functions:OP_DEF',
             'functions:OP_CALL', 'functions:OP_EVAL', 'functions:OP_RETURN', 'functions:OP_MERKLEVAL', 'functions:OP_TAPROOT',
             'classes:Tape.read', 'classes:Tape.has_terminated', 'classes:Stack.put', 'classes:Stack.get']
BOUNDS = {'quick': {'scripts_per_list': '1..3 (hand-off lemma), 2 (program exploration)', 'summary': 'each script run pops<=1 / pushes<=1 '
                    'symbolic item, may write a byte-keyed cache entry, may RETURN, may raise', 'limits': 'symbolic stack limits >= 1, '
                    'call-stack limit symbolic', 'program_exploration': '13 witness programs x 7 lock templates (symbolic push data) '
                    'and locks of 2 arbitrary bytes'},
          'thorough': {'scripts_per_list': '1..4', 'summary': 'as quick', 'limits': 'as quick',
                       'program_exploration': '13 witness programs x 7 lock templates and locks of 3 arbitrary bytes whose first byte is outside 28..31 and 72..75'}}
OUTSIDE = ['lists of more than 4 scripts (the hand-off step is the same for every position)',
           'arbitrary lock byte strings longer than 3 bytes in the end-to-end exploration (covered by the inductive lemmas)']
ASSUMPTIONS = ['P2 summary of a script run: arbitrary bounded stack effect, byte-keyed cache writes, optional RETURN '
               "(cache['returned'] = True), optional raise; the construct-level behaviour is the real code",
               "invariant used for the induction: when an instruction starts, cache['returned'] is absent; it is re-established by "
               'every instruction unless the tape is terminated (checked for every opcode) and by the hand-off between scripts']
EXPLANATION = ('(1) hand-off lemma: the real run_auth_scripts / run_script with each script run summarised - never raises, verdict '
               'exact, and the state handed to the next script is clean (no return flag, pointer 0, shared stack/cache/definitions/'
               'call count); (2) return-flag invariant for one step of every opcode; (3) end-to-end: real nested execution of '
               'witness/lock programs against the channel oracle (run_script + run_tape composed by hand)')
MUST_REACH = ['call_resumed', 'handoff_true', 'handoff_false', 'handoff_raise', 'handoff_returned', 'step_returned', 'e2e_true', 'e2e_false']


# ------------------------------------------------------------------------------ (1) hand-off lemma
class ScriptSummary(vmstep.Summary):
    """summary of a whole script run; records the state it is handed"""

    def __call__(self, tape, stack, cache, additional_flags=None):
        k = len(self.bodies)
        self.handed = getattr(self, 'handed', [])
        self.handed.append({'returned_present': 'returned' in cache, 'pointer': tape.pointer, 'stack': stack,
                            'cache': cache, 'definitions': tape.definitions, 'count': tape.callstack_count,
                            'limit': tape.callstack_limit, 'contracts': tape.contracts, 'plugins': tape.plugins,
                            'tape': tape})
        try:
            super().__call__(tape, stack, cache, additional_flags)
        finally:
            b = self.bodies[k]
            if b.raised is None:
                b.raised = True          # Stack.put of the summary hit a limit
            # a script may also spend call budget and define functions
            if not b.raised and self.rich:
                tape.callstack_count = tape.callstack_count + (1 if bool(self.c.bool(f'script{k}.calls')) else 0)
                if bool(self.c.bool(f'script{k}.defines')):
                    tape.definitions[b'\x07'] = self.pkg.classes.Tape(b'\x00')
            b.stack_after = vmstep.stack_items(stack)


def h_handoff(c, pkg, n, cv_returned):
    F = pkg.functions
    summ = ScriptSummary(pkg, pops=1, pushes=1, writes_cache=(n <= 2))
    summ.c = c
    summ.rich = n <= 3          # scripts also spend call budget and define functions (every hand-off must carry both on)
    scripts = [bytes([i + 1]) * (i + 1) for i in range(n)]
    cache_vals = SDict({'sigfield1': b'm'})
    if cv_returned:
        cache_vals['returned'] = 1
    cache_vals.wlog = []
    mi = c.int('max_items', 1, 4)
    ms = c.int('max_item_size', 1, 4)
    lim = c.int('callstack_limit', 0, 3)
    with vmstep.Installed(pkg, summ):
        r = outcome_of(F.run_auth_scripts, scripts, cache_vals, SDict(), SDict(), mi, ms, lim)
    c.check('never_raises', r[0] == 'ok', got=repr(r))
    if r[0] != 'ok':
        return
    verdict = r[1]
    bodies = summ.bodies
    raised = any(b.raised for b in bodies)
    c.check('scripts_run_in_order', [b.data for b in bodies] == scripts[:len(bodies)])
    if raised:
        c.check('false_when_a_script_raises', verdict is False)
        c.check('no_script_runs_after_a_failure', bodies[-1].raised and not any(b.raised for b in bodies[:-1]))
        c.reach('handoff_raise')
    else:
        c.check('every_script_ran', len(bodies) == n)
        final = bodies[-1].stack_after
        want = len(final) == 1 and final[0] == b'\xff'
        c.check('true_iff_single_0xff_item', verdict == want)
        c.reach('handoff_true' if (want is True or (want is not False and bool(want))) else 'handoff_false')
    # cleanliness of every hand-off
    for i, h in enumerate(summ.handed):
        c.check('no_return_flag_handed_over', not h['returned_present'], script=i)
        c.check('fresh_tape_starts_at_zero', h['pointer'] == 0, script=i)
        if i:
            p = summ.handed[i - 1]
            c.check('shared_stack_and_cache', h['stack'] is p['stack'] and h['cache'] is p['cache'])
            c.check('definitions_carried', h['definitions'] is p['tape'].definitions)
            c.check('call_budget_carried', h['count'] is p['tape'].callstack_count or
                    mk_bool(zi(h['count']) == zi(p['tape'].callstack_count)))
            c.check('limit_carried', mk_bool(zi(h['limit']) == zi(lim)))
            c.check('contracts_and_plugins_carried', h['contracts'] is p['contracts'] and h['plugins'] is p['plugins'])
        if bodies[i].returned:
            c.reach('handoff_returned')
    c.check('caller_cache_vals_untouched', len(cache_vals.wlog) == 0)


# ------------------------------------------------------------------------------ (2) return-flag invariant
def h_step_flag(c, pkg, op, lens):
    st, r, summ = vmstep.generic_step(c, pkg, op, lens, sym_limits=False)
    cache, tape = st.cache, st.tape
    has = 'returned' in cache
    if has:
        c.reach('step_returned')
        c.check('return_flag_only_with_terminated_tape', tape.pointer == len(tape.data), op=str(op))
        c.check('return_flag_only_if_a_body_returned_or_op_is_return',
                op == 'OP_RETURN' or any(b.returned for b in summ.bodies), op=str(op))
    if r[0] == 'ok' and op in ('OP_CALL', 'OP_EVAL', 'OP_LOOP') and not has:
        c.reach('step_consumed')
    if op == 'OP_CALL' and r[0] == 'ok' and summ.bodies:
        # the frame that made the call resumes where it was: a definition is one shared Tape object, so a (recursive) call
        # must put its position back whether the callee ran off its end or returned
        c.check('call_restores_position_of_calling_frame', st.def_tape.pointer == st.def_pointer,
                returned=bool(summ.bodies[0].returned))
        c.reach('call_resumed')


def r_step_flag(inputs, params, obligation):
    res = vmstep.concrete_generic_step(inputs, params)
    r, cache, tape, bodies = res['r'], res['cache'], res['tape'], res['summ'].bodies
    op = params['op']
    has = 'returned' in cache
    bad = {'return_flag_only_with_terminated_tape': has and tape.pointer != len(tape.data),
           'return_flag_only_if_a_body_returned_or_op_is_return': has and not (op == 'OP_RETURN' or any(b.returned for b in bodies)),
           'call_restores_position_of_calling_frame': op == 'OP_CALL' and r[0] == 'ok' and bool(bodies) and
           res['def_tape'].pointer != res['def_pointer']}
    return {'reproduced': bool(bad.get(obligation)), 'outcome': repr(r)[:160], 'def_pointer': (res['def_pointer'], res['def_tape'].pointer)}


# ------------------------------------------------------------------------------ (3) end-to-end programs
WITNESSES = ['true', 'true return', 'true true return', 'true true if { return }', 'true false if { } else { return }',
             'true true if { return } else { }', 'true try { return } except { }', 'true try { false verify } except { return }',
             'true true loop { return }', 'true def 0 { return } call d0', 'true push x30 eval', 'true true if { true if { return } }',
             'true true return false verify']
LOCKS = ['if { } false verify', 'if { true } else { true } false verify', 'true if { } pop0 false verify',
         'try { } except { } false verify', 'pop0 true if { } push {X} verify true', 'if { push {X} } else { push {X} }',
         'pop0 true']


def _compile_lock(pkg_or_real, src, x):
    return pkg_or_real.compile_script(src.replace('{X}', 'x' + x.hex())) if '{X}' in src else pkg_or_real.compile_script(src)


def _oracle(F, C, scripts, cache_vals):
    """channel oracle: run_script for the first script, then a fresh Tape per script run by run_tape on the same
    stack, with the byte-keyed part of the cache (plus the embedder's string entries), the definitions and call count"""
    r = outcome_of(F.run_script, scripts[0], cache_vals)
    if r[0] == 'raise':
        return False
    tape, stack, cache = r[1]
    for s in scripts[1:]:
        clean = SDict() if isinstance(cache, SDict) else {}
        for k in list(cache.keys()):
            if not (isinstance(k, str) and k == 'returned'):
                clean[k] = cache[k]
        cache = clean
        t2 = C.Tape(s, callstack_limit=tape.callstack_limit, callstack_count=tape.callstack_count,
                    definitions=tape.definitions)
        t2.contracts = tape.contracts
        t2.plugins = tape.plugins
        r = outcome_of(F.run_tape, t2, stack, cache)
        if r[0] == 'raise':
            return False
        tape = t2
    items = vmstep.stack_items(stack) if hasattr(stack.deque, 'items') else list(stack.deque)
    if len(items) != 1:
        return False
    return items[0] == b'\xff'


def h_e2e(c, pkg, w, l, split=None):
    F, C, P = pkg.functions, pkg.classes, pkg.parsing
    x = c.bytes('x', 1)
    W = P.compile_script(WITNESSES[w])
    L = _compile_lock(P, LOCKS[l], x) if isinstance(l, int) else c.bytes('lock', l[1])
    if split is not None:        # job splitting only: this job covers first lock bytes in one sub-range
        i, n = split
        c.assume(sym_and(L[0] >= (256 * i) // n, L[0] < (256 * (i + 1)) // n))
    cache_vals = SDict({'sigfield1': b'm'})
    r = outcome_of(F.run_auth_scripts, [W, L], cache_vals)
    c.check('never_raises', r[0] == 'ok', got=repr(r))
    if r[0] != 'ok':
        return
    stubs.CONFIG.random_log = []          # the oracle run sees the same random stream as the implementation run
    want = _oracle(F, C, [W, L], SDict({'sigfield1': b'm'}))
    c.check('verdict_equals_channel_oracle', r[1] == want, w=WITNESSES[w])
    t = r[1] is True
    c.reach('e2e_true' if t else 'e2e_false')
    c.observe(verdict=r[1])


def _real_scripts(inputs, params):
    import tapescript
    W = tapescript.compile_script(WITNESSES[params['w']])
    l = params['l']
    L = _compile_lock(tapescript, LOCKS[l], inputs['x']) if isinstance(l, int) else inputs['lock']
    return W, L


def c_e2e(inputs, params):
    import tapescript
    W, L = _real_scripts(inputs, params)
    with pinned_clock(inputs.get('now', 0)), pinned_random(inputs):     # the verdict of e.g. SIZE RANDOM CHECK_TIMESTAMP depends on both
        return {'verdict': tapescript.run_auth_scripts([W, L], {'sigfield1': b'm'})}


def r_e2e(inputs, params, obligation):
    import tapescript
    import tapescript.functions as RF
    W, L = _real_scripts(inputs, params)
    with pinned_clock(inputs.get('now', 0)), pinned_random(inputs) as rnd:
        r = outcome_of(tapescript.run_auth_scripts, [W, L], {'sigfield1': b'm'})
        if r[0] == 'raise':
            return {'reproduced': True, 'raised': repr(r[1])}
        rnd['k'] = 0                      # the oracle run sees the same random stream as the implementation run
        want = _oracle(RF, tapescript, [W, L], {'sigfield1': b'm'})
    return {'reproduced': r[1] != want, 'got': r[1], 'want': want, 'witness': W.hex(), 'lock': L.hex()}


def r_handoff(inputs, params, obligation):
    """concrete demonstration of a dirty hand-off: the script the model lets return at top level, followed by a script whose
    first instruction is an IF and whose remaining instructions must fail"""
    import tapescript
    n = params['n']
    cv = {'returned': 1} if params['cv_returned'] else {}
    comp = tapescript.compile_script
    tried = []
    if obligation in ('call_budget_carried', 'definitions_carried', 'limit_carried'):
        # a function defined by the first script, the whole call budget spent by a middle script, one more call in the last one:
        # the budget is cumulative over the list, so the last call must fail
        scripts = [bytes.fromhex('29000000')] + [comp('true pop0')] * max(0, n - 3) + [bytes.fromhex('2a002a00'), bytes.fromhex('2a0001')]
        got = tapescript.run_auth_scripts(scripts, dict(cv), {}, {}, 1024, 1024, 2)
        return {'reproduced': got is True, 'scripts': [s_.hex() for s_ in scripts], 'callstack_limit': 2, 'verdict': got}
    ks = [k for k in range(n - 1) if inputs.get(f'body{k}.returns')] or [0]
    for k in ks:
        if n == 1:
            scripts = [comp('true true if { } false verify')] if params['cv_returned'] else [comp('true true return')]
        else:
            scripts = []
            for i in range(n):
                if i == k:
                    scripts.append(comp('true true return' if k == 0 else 'true return') if not (params['cv_returned'] and k == 0)
                                   else comp('true true'))
                elif i == k + 1:
                    scripts.append(comp('if { } false verify'))
                elif i == 0:
                    scripts.append(comp('true'))
                else:
                    scripts.append(comp('true pop0'))
        got = tapescript.run_auth_scripts(scripts, dict(cv))
        tried.append({'scripts': [s_.hex() for s_ in scripts], 'verdict': got})
        if got is True and n > 1:
            return {'reproduced': True, 'scripts': [s_.hex() for s_ in scripts], 'cache_vals': repr(cv), 'verdict': got}
    return {'reproduced': False, 'tried': tried[:3], 'cache_vals': repr(cv)}


def _p_handoff(tier):
    ns = (1, 2, 3) if tier == 'quick' else (1, 2, 3, 4)
    return [{'n': n, 'cv_returned': cv} for n in ns for cv in (False, True)]


def _p_step(tier):
    shapes = [[], [1], [1, 1], [4, 4], [32, 32, 32]] if tier == 'quick' else [list(s) for s in vmstep.SHAPES_QUICK]
    return [p for p in vmstep.generic_params('thorough' if tier != 'quick' else 'quick') if p['lens'] in shapes
            and isinstance(p['op'], str)]


def _p_e2e(tier):
    out = [{'w': w, 'l': l} for w in range(len(WITNESSES)) for l in range(len(LOCKS))]
    if tier == 'quick':
        out += [{'w': w, 'l': ['bytes', 1]} for w in (0, 1, 3, 8)]
        out += [{'w': 1, 'l': ['bytes', 2], 'split': [i, 8]} for i in range(8)]
    else:
        out += [{'w': w, 'l': ['bytes', 1]} for w in range(len(WITNESSES))]
        out += [{'w': w, 'l': ['bytes', 2], 'split': [i, 4]} for w in range(len(WITNESSES)) for i in range(4)]
        # 3-byte locks: first bytes 28..31 (OP_COPY with a symbolic count, hashes) and 72..75 (signing instructions) do not finish
        # within an hour and are left out (stated in BOUNDS)
        out += [{'w': 1, 'l': ['bytes', 3], 'split': [i, 64]} for i in range(64) if i not in (7, 18)]
    return out


def _sig(v):
    return {'harness': v['harness'], 'obligation': v['obligation']}


HARNESSES = [
    HarnessSpec('handoff', h_handoff, _p_handoff, replay=r_handoff, signature=_sig),
    HarnessSpec('step_flag', h_step_flag, _p_step, replay=r_step_flag, signature=_sig),
    HarnessSpec('e2e', h_e2e, _p_e2e, replay=r_e2e, concrete=c_e2e, witness_every=5, signature=_sig),
]
