"""C18 — anonymous multi-hop locks: consistent setup and right-to-left release cascade."""
from __future__ import annotations
import z3
from sx.harness import HarnessSpec
from sx.core import SymInt, SymBool, mk_bool, zi, to_z3bool, sym_and, sym_or, sym_not, eng
from sx import core as _core
from sx.values import SymBytes, mk_bytes, items_of, bytes_eq, from_bytes_model
from sx.containers import SDict
from sx import stubs, algebra
from .common import outcome_of, exc_name

FUNCTIONS = ['AMHL:AMHL.sample', 'AMHL:AMHL.samples', 'AMHL:AMHL.oneway', 'AMHL:AMHL.setup', 'AMHL:AMHL.scalar_sum', 'AMHL:AMHL.setup_for',
             'AMHL:AMHL.check_setup', 'AMHL:AMHL.release', 'AMHL:AMHL.verify_lock_key', 'tools:setup_amhl', 'tools:release_left_amhl_lock',
             'tools:make_adapter_locks_pub', 'tools:make_adapter_witness', 'tools:decrypt_adapter', 'functions:clamp_scalar',
             'functions:aggregate_points', 'functions:bytes_are_same']
BOUNDS = {'quick': {'chain_length': '2..4 (AMHL class), 2 (setup_amhl + adapter cascade through the tools)', 'seed': '32 symbolic bytes: every sample is an '
                    'uninterpreted-hash scalar, so "every seed" is every model'},
          'thorough': {'chain_length': '2..6 (AMHL class), 2..3 (tools cascade)', 'seed': 'as quick'}}
OUTSIDE = ['chains longer than the bound', 'libsodium encodings (generic-group model)', 'refund-key PTLC variant of setup_amhl (covered by C15 for the lock itself)']
ASSUMPTIONS = ['generic-group model of sx/algebra.py; SHA-256 uninterpreted; no intermediate scalar / point neutral',
               'genericity for the negative clause: the partial sums of the secrets are pairwise different mod L (otherwise two hops share a key)']
EXPLANATION = ('AMHL.setup / setup_for / check_setup / verify_lock_key / release are executed from the real source over the group-algebra stubs for '
               'a symbolic seed: hop i tweak point = (y_0 + ... + y_i)*G, every view validates, the final key opens the last lock, and release '
               'applied right to left yields at every hop the scalar whose point is that hop\'s lock; a key of another hop does not open it')
MUST_REACH = ['setup_ok', 'cascade_ok', 'tools_ok', 'tools_noseed_ok', 'tools_refunds_ok', 'sample_ok']


def _setup(c):
    stubs.CONFIG.sig_mode = 'algebra'
    stubs.CONFIG.assume_nondegenerate = True
    _core.ABSTRACT['xor_uf'] = 'zero'
    _core.ABSTRACT['uf_digits'] = True
    return c.bytes('seed', 32)


def _k(p):
    e = eng()
    return e.run_cache.get('alg_k', {}).get(algebra._key(p), (None, None))[1]


def h_amhl(c, pkg, n):
    A = pkg.AMHL.AMHL
    seed = _setup(c)
    with algebra.XorShortcut(pkg):
        if True:
            s = A.setup(n, seed)
            y, Y = s
            c.check('n_secrets_and_locks', len(y) == n and len(Y) == n)
            ysum = 0
            ints = []
            for i in range(n):
                yi = algebra.scalar_int(y[i])
                ints.append(yi)
                ysum = ysum + yi
                ki = _k(Y[i])
                c.check('hop_tweak_point_is_sum_of_secret_points', ki is not None and mk_bool(ki == zi(algebra.modL(ysum))), hop=i)
            # every party's view validates
            for i in range(n + 1):
                view = A.setup_for(s, i)
                ok = A.check_setup(view, i, n)
                c.check('every_view_passes_setup_validation', ok, party=i)
            key = A.setup_for(s, n)[-1]
            c.check('final_key_opens_last_lock', A.verify_lock_key(Y[n - 1], key))
            c.reach('setup_ok')
            # cascade right to left
            k = key
            for i in range(n - 1, 0, -1):
                c.check('key_opens_this_hop', A.verify_lock_key(Y[i], k), hop=i)
                k = A.release(k, y[i])
                c.check('released_key_opens_next_left_hop', A.verify_lock_key(Y[i - 1], k), hop=i - 1)
            c.check('leftmost_key_is_first_secret', mk_bool(algebra.scalar_int(k) == zi(algebra.modL(ints[0]))))
            c.reach('cascade_ok')


def h_wrong_hop(c, pkg, n):
    """a key of another hop does not open hop i (genericity assumption)"""
    A = pkg.AMHL.AMHL
    seed = _setup(c)
    with algebra.XorShortcut(pkg):
        s = A.setup(n, seed)
        y, Y = s
        sums = []
        acc = 0
        for i in range(n):
            acc = acc + algebra.scalar_int(y[i])
            sums.append(zi(algebra.modL(acc)))
        e = eng()
        for i in range(n):
            for j in range(i + 1, n):
                e.add(sums[i] != sums[j])
        key = A.setup_for(s, n)[-1]
        ks = [None] * n
        k = key
        ks[n - 1] = k
        for i in range(n - 1, 0, -1):
            k = A.release(k, y[i])
            ks[i - 1] = k
        for i in range(n):
            for j in range(n):
                if i != j:
                    c.check('key_of_another_hop_does_not_open_this_lock', sym_not(A.verify_lock_key(Y[i], ks[j])), lock=i, key=j)
        c.reach('wrong_hop_done')


def h_tools(c, pkg, n):
    """setup_amhl: tweak points / keys per hop, and the adapter cascade through release_left_amhl_lock"""
    T_, F = pkg.tools, pkg.functions
    A = pkg.AMHL.AMHL
    seed = _setup(c)
    stubs.CONFIG.log2_max_bits = 48
    with algebra.XorShortcut(pkg):
        # parties 0..n-2 have fixed real keys (their keys play no role in the algebra); the last party, which signs the
        # adapter, has a symbolic seed
        import nacl.signing as _ns
        seeds = [bytes([i + 1]) * 32 for i in range(n - 1)] + [c.bytes(f'party{n - 1}', 32)]
        pubs = [bytes(_ns.SigningKey(sd).verify_key) for sd in seeds[:-1]]
        pubs.append(F.derive_point_from_scalar(F.derive_key_from_seed(seeds[-1])))
        algebra.mark_point(pubs[-1])
        for pk in pubs[:-1]:
            eng().add(z3.Not(to_z3bool(bytes_eq(pubs[-1], pk))))       # the symbolic key is none of the fixed ones
            algebra.mark_point(pk)
        res = T_.setup_amhl(seed, pubs, '00')
        s = A.setup(n, seed)
        y, Y = s
        c.check('result_has_every_party_and_the_key', all(pk in res for pk in pubs) and 'key' in res)
        key = res['key']
        c.check('result_key_is_sum_of_all_secrets', A.verify_lock_key(Y[n - 1], key))
        for i in range(n):
            entry = res[pubs[i]]
            c.check('entry_shape', len(entry) == 4)
            Ti = entry[2]
            want = Y[i] if i > 0 or n > 1 else Y[0]
            # hop i is locked to the point of the partial sum up to i
            ki = _k(Ti)
            kw = _k(Y[i])
            c.check('hop_lock_point_is_partial_sum_point', ki is not None and kw is not None and mk_bool(ki == kw), hop=i)
        # adapter cascade for the last two hops: party n-1 signs an adapter for Y[n-1]; decrypting with the final key gives a
        # signature; release_left_amhl_lock recovers the key of hop n-2
        m = c.bytes('m', 2)
        sf = SDict({'sigfield1': m})
        sf.wlog = []
        i = n - 1
        wit = T_.make_adapter_witness(seeds[i], res[pubs[i]][2], sf, '00')
        r = outcome_of(F.run_auth_scripts, [wit, res[pubs[i]][0]], sf)
        c.check('adapter_witness_satisfies_the_hop_adapter_lock', r[0] == 'ok' and r[1] is True, got=repr(r)[:120])
        sig = outcome_of(T_.decrypt_adapter, wit, key)
        c.check('decrypt_with_final_key_total', sig[0] == 'ok', got=repr(sig)[:160])
        if sig[0] == 'ok':
            # the decrypted value is a valid signature under the hop key (the RFC 8032 equation in the model; the run through
            # the signature lock itself is the C17 builders harness)
            # (that decrypting with a scalar whose point is the hop's tweak point yields a valid signature is C17's
            # decrypt identity; here: the scalar used is such a scalar)
            c.check('final_key_point_is_the_last_hop_tweak_point', A.verify_lock_key(res[pubs[i]][2], key))
            left = outcome_of(T_.release_left_amhl_lock, wit, sig[1], y[i])
            c.check('release_left_total', left[0] == 'ok' and len(left[1]) == 32, got=repr(left)[:160])
            # release_left_amhl_lock reads sa from bytes 2:34 of the adapter witness and s from bytes 32:64 of the
            # signature: both slices are the very values the instructions produced
            e = eng()
            c.check('release_left_reads_sa_and_s_at_the_right_offsets',
                    algebra._src(e).get(algebra._key(wit.bytes[2:34])) is not None and
                    algebra._src(e).get(algebra._key(sig[1][32:])) is not None)
    c.reach('tools_ok')


def h_tools_noseed(c, pkg, n):
    """setup_amhl with the empty seed (the secrets then come from token_bytes): the returned key must still be the key of the
    returned last hop, i.e. everything in the result stems from one and the same sample set"""
    T_, F = pkg.tools, pkg.functions
    A = pkg.AMHL.AMHL
    _setup(c)
    stubs.CONFIG.log2_max_bits = 48
    with algebra.XorShortcut(pkg):
        import nacl.signing as _ns
        pubs = [bytes(_ns.SigningKey(bytes([i + 1]) * 32).verify_key) for i in range(n)]
        for pk in pubs:
            algebra.mark_point(pk)
        res = T_.setup_amhl(b'', pubs, '00')
        c.check('result_has_every_party_and_the_key', all(pk in res for pk in pubs) and 'key' in res)
        c.check('final_key_opens_the_last_hop', A.verify_lock_key(res[pubs[n - 1]][2], res['key']))
        # hop 0 is locked to the point of its own secret; hop i to the left hop's point plus the point of its partial secret
        c.check('first_hop_point_is_point_of_its_secret', A.verify_lock_key(res[pubs[0]][2], res[pubs[0]][3]))
        for i in range(1, n):
            c.check('hop_point_is_left_point_plus_partial_secret',
                    A.check_setup((res[pubs[i - 1]][2], res[pubs[i]][2], res[pubs[i]][3]), i, n), hop=i)
    c.reach('tools_noseed_ok')


def r_tools_noseed(inputs, params, obligation):
    import tapescript.tools as RT
    import tapescript.functions as RF
    from tapescript.AMHL import AMHL as A
    n = params['n']
    pubs = [RF.derive_point_from_scalar(RF.derive_key_from_seed(bytes([i + 1]) * 32)) for i in range(n)]
    bad = []
    for _ in range(3):
        res = RT.setup_amhl(b'', pubs, '00')
        if not A.verify_lock_key(res[pubs[n - 1]][2], res['key']):
            bad.append('final_key')
        if not A.verify_lock_key(res[pubs[0]][2], res[pubs[0]][3]):
            bad.append(('first_hop', 0))
        for i in range(1, n):
            if not A.check_setup((res[pubs[i - 1]][2], res[pubs[i]][2], res[pubs[i]][3]), i, n):
                bad.append(('hop_relation', i))
    return {'reproduced': bool(bad), 'bad': bad[:4]}


def h_tools_refunds(c, pkg, n, refunds, sigflags='00'):
    """setup_amhl with a partial refund map: the hops listed get the PTLC for *their own* key and refund key, every other hop its own
    signature lock; compared with the locks the builders give for that hop alone"""
    T_, F = pkg.tools, pkg.functions
    seed = _setup(c)
    stubs.CONFIG.log2_max_bits = 48
    stubs.CONFIG.clock = lambda: 1000
    with algebra.XorShortcut(pkg):
        import nacl.signing as _ns
        pubs = [bytes(_ns.SigningKey(bytes([i + 1]) * 32).verify_key) for i in range(n)]
        rks = {i: bytes(_ns.SigningKey(bytes([0x40 + i]) * 32).verify_key) for i in refunds}
        for pk in pubs + list(rks.values()):
            algebra.mark_point(pk)
        res = T_.setup_amhl(seed, pubs, sigflags, {pubs[i]: rks[i] for i in refunds}, 600)
        for i in range(n):
            entry = res[pubs[i]]
            Ti = entry[2]
            own_adapter, own_sig = T_.make_adapter_locks_pub(pubs[i], Ti, sigflags)
            c.check('hop_adapter_lock_is_for_its_own_key_and_point', len(entry[0].bytes) == len(own_adapter.bytes) and
                    bytes_eq(entry[0].bytes, own_adapter.bytes), hop=i)
            if i in refunds:
                want = T_.make_ptlc_lock(pubs[i], rks[i], timeout=600, sigflags=sigflags)
            else:
                want = own_sig
            c.check('hop_lock_is_for_its_own_key', len(entry[1].bytes) == len(want.bytes) and bytes_eq(entry[1].bytes, want.bytes),
                    hop=i, refund=(i in refunds))
    c.reach('tools_refunds_ok')


def r_tools_refunds(inputs, params, obligation):
    import tapescript.tools as RT
    import tapescript.functions as RF
    from checks.common import pinned_clock
    n, refunds = params['n'], params['refunds']
    pubs = [RF.derive_point_from_scalar(RF.derive_key_from_seed(bytes([i + 1]) * 32)) for i in range(n)]
    rks = {i: RF.derive_point_from_scalar(RF.derive_key_from_seed(bytes([0x40 + i]) * 32)) for i in refunds}
    bad = []
    with pinned_clock(1000):
        sfl = params.get('sigflags', '00')
        res = RT.setup_amhl(inputs.get('seed', b'seed'), pubs, sfl, {pubs[i]: rks[i] for i in refunds}, 600)
        for i in range(n):
            e = res[pubs[i]]
            a, s_ = RT.make_adapter_locks_pub(pubs[i], e[2], sfl)
            want = RT.make_ptlc_lock(pubs[i], rks[i], timeout=600, sigflags=sfl) if i in refunds else s_
            if e[0].bytes != a.bytes:
                bad.append(('adapter_lock', i))
            if e[1].bytes != want.bytes:
                bad.append(('lock', i))
    return {'reproduced': bool(bad), 'bad': bad[:4]}


def h_sample(c, pkg, slen, i):
    """AMHL.sample(seed, i) hashes the WHOLE seed followed by the 8-byte index (different seeds / indices give different hash
    inputs, hence independent chains), and returns that digest clamped"""
    A = pkg.AMHL.AMHL
    F = pkg.functions
    _setup(c)
    seed = c.bytes('seed_n', slen)
    stubs.CONFIG.hash_log = []
    with algebra.XorShortcut(pkg):
        y = A.sample(seed, i)
    apps = [(alg, data, out) for alg, data, out in stubs.CONFIG.hash_log if alg == 'sha256']
    c.check('one_hash_application_per_sample', len(apps) == 1, n=len(apps))
    if len(apps) == 1:
        data = apps[0][1]
        want = seed + i.to_bytes(8, 'big')
        c.check('sample_hashes_whole_seed_and_index', len(data) == len(want) and (len(want) == 0 or bytes_eq(data, want)),
                got_len=len(data), want_len=len(want))
        c.check('sample_is_the_clamped_digest', len(y) == 32 and bytes_eq(y, F.clamp_scalar(apps[0][2])))
    c.reach('sample_ok')


def r_sample(inputs, params, obligation):
    """two seeds that differ only beyond / inside the hashed part must give different samples"""
    from tapescript.AMHL import AMHL as A
    import hashlib
    import tapescript.functions as RF
    seed = inputs.get('seed_n', b'')
    seed = (seed + bytes(params['slen']))[:params['slen']]
    i = params['i']
    want = RF.clamp_scalar(hashlib.sha256(seed + i.to_bytes(8, 'big')).digest())
    got = A.sample(seed, i)
    return {'reproduced': got != want, 'got': got.hex(), 'want': want.hex()}


# ------------------------------------------------------------------------------ concrete replay (real libsodium)
def r_amhl(inputs, params, obligation):
    import tapescript
    from tapescript.AMHL import AMHL as A
    import tapescript.tools as RT
    import tapescript.functions as RF
    n = params['n']
    seed = inputs['seed']
    bad = []
    try:
        s = A.setup(n, seed)
        y, Y = s
        for i in range(n + 1):
            if not A.check_setup(A.setup_for(s, i), i, n):
                bad.append(('check_setup', i))
        key = A.setup_for(s, n)[-1]
        if not A.verify_lock_key(Y[n - 1], key):
            bad.append(('final_key', n - 1))
        k = key
        for i in range(n - 1, 0, -1):
            if not A.verify_lock_key(Y[i], k):
                bad.append(('opens', i))
            k = A.release(k, y[i])
            if not A.verify_lock_key(Y[i - 1], k):
                bad.append(('released_opens', i - 1))
        # point sums with real group arithmetic
        acc = None
        for i in range(n):
            P = A.oneway(y[i])
            acc = P if acc is None else RF.aggregate_points((acc, P))
            if acc != Y[i]:
                bad.append(('sum_point', i))
        if f'party{n - 1}' in inputs:
            seeds = [bytes([i + 1]) * 32 for i in range(n - 1)] + [inputs[f'party{n - 1}']]
            pubs = [RF.derive_point_from_scalar(RF.derive_key_from_seed(sd)) for sd in seeds]
            res = RT.setup_amhl(seed, pubs, '00')
            sf = {'sigfield1': inputs.get('m', b'\x00\x00')}
            i = n - 1
            wit = RT.make_adapter_witness(seeds[i], res[pubs[i]][2], dict(sf), '00')
            if not tapescript.run_auth_scripts([wit, res[pubs[i]][0]], dict(sf)):
                bad.append(('adapter_lock', i))
            sig = RT.decrypt_adapter(wit, res['key'])
            if not tapescript.run_auth_scripts([RT.Script.from_src(f'push x{sig.hex()}'), res[pubs[i]][1]], dict(sf)):
                bad.append(('sig_lock', i))
            left = RT.release_left_amhl_lock(wit, sig, y[i])
            if not A.verify_lock_key(Y[i - 1], left):
                bad.append(('release_left', i - 1))
    except BaseException as e:       # noqa
        return {'reproduced': False, 'note': f'degenerate input: {type(e).__name__}: {e}'}
    return {'reproduced': bool(bad), 'bad': bad[:5]}


def _fallback(params, rng):
    d = {'seed': rng.randbytes(32), 'm': rng.randbytes(2)}
    for i in range(params.get('n', 2)):
        d[f'party{i}'] = rng.randbytes(32)
    return d


def _fallback_amhl(params, rng):
    return {'seed': rng.randbytes(32)}


def _sig(v):
    return {'harness': v['harness'], 'obligation': v['obligation']}


HARNESSES = [
    HarnessSpec('amhl', h_amhl, lambda t: [{'n': n} for n in ((2, 3, 4) if t == 'quick' else (2, 3, 4, 5, 6))], witness_replay=True, replay=r_amhl,
                signature=_sig, fallback=_fallback_amhl),
    HarnessSpec('wrong_hop', h_wrong_hop, lambda t: [{'n': n} for n in ((2, 3) if t == 'quick' else (2, 3, 4))], replay=r_amhl,
                signature=_sig),
    HarnessSpec('tools', h_tools, lambda t: [{'n': n} for n in ((2,) if t == 'quick' else (2, 3))], witness_replay=True, replay=r_amhl, signature=_sig,
                fallback=_fallback),
    HarnessSpec('sample', h_sample, lambda t: [{'slen': n, 'i': i} for n in ((1, 32, 33, 40) if t == 'quick' else (1, 3, 31, 32, 33, 40, 64, 65))
                                               for i in (0, 1, 300)], witness_replay=True, replay=r_sample, signature=_sig),
    HarnessSpec('tools_refunds', h_tools_refunds, lambda t: [{'n': 3, 'refunds': r} for r in ([], [0], [1], [2], [0, 2], [0, 1, 2])] +
                [{'n': 3, 'refunds': r, 'sigflags': f} for r, f in (([0, 2], '01'), ([1], '82'), ([], '01'))] +
                ([{'n': 4, 'refunds': r} for r in ([0], [1, 2], [0, 3])] if t != 'quick' else []), witness_replay=True, replay=r_tools_refunds, signature=_sig,
                fallback=lambda params, rng: {'seed': rng.randbytes(32)}),
    HarnessSpec('tools_noseed', h_tools_noseed, lambda t: [{'n': n} for n in ((2, 3) if t == 'quick' else (2, 3, 4))], witness_replay=True, replay=r_tools_noseed,
                signature=_sig, fallback=lambda params, rng: {}),
]
