"""C05 — taproot: the root binds key and script; key path and script path are exact."""
from __future__ import annotations
import z3
from sx.harness import HarnessSpec
from sx.core import SymInt, SymBool, mk_bool, zi, to_z3bool, sym_and, sym_or, sym_not, eng
from sx import core as _core
from sx.values import SymBytes, mk_bytes, items_of, bytes_eq, from_bytes_model
from sx.containers import SDict
from sx import stubs, algebra
from . import vmstep
from .common import outcome_of, exc_name
from .c02 import ref_message, _subset, _ref_message_c
from .c13 import SelectiveByLenAny, _sigfields, _run_lock_from_state

FUNCTIONS = ['functions:OP_TAPROOT', 'functions:OP_EVAL', 'functions:OP_CHECK_SIG', 'functions:clamp_scalar', 'functions:derive_point_from_scalar',
             'functions:derive_key_from_seed', 'functions:aggregate_points', 'functions:aggregate_scalars', 'functions:sign_with_scalar',
             'functions:bytes_are_same', 'tools:make_taproot_lock', 'tools:make_taproot_witness_keyspend',
             'tools:make_taproot_witness_scriptspend', 'tools:make_nonnative_taproot_lock', 'tools:make_graftap_lock',
             'tools:make_graftap_witness_keyspend', 'tools:make_graftap_witness_scriptspend', 'tools:_make_graftap_committed_script',
             'functions:OP_SHA256', 'functions:OP_CONCAT', 'functions:OP_CLAMP_SCALAR', 'functions:OP_DERIVE_POINT', 'functions:OP_ADD_POINTS',
             'functions:OP_CALL', 'functions:OP_DEF', 'functions:OP_IF_ELSE', 'functions:OP_SWAP', 'functions:OP_SIZE', 'functions:OP_EQUAL']
BOUNDS = {'quick': {'committed_script': 'symbolic bytes of length 1..3 (its evaluation is summarised and logged)', 'internal_key': 'symbolic valid point',
                    'witness_states': 'stacks of 0..3 items with lengths from {1, 2, 32, 64, 65}', 'sigfields': 'two fields; allowed operand 00 and 03, on the flagged key path also 20, 40, 80, 5a (flag byte symbolic)'},
          'thorough': {'committed_script': 'length 1..8', 'internal_key': 'as quick', 'witness_states': 'as quick plus 4-item stacks',
                       'sigfields': 'as quick; allowed 00, 01, 03, ff, on the flagged key path every single bit and 5a, a5, 7f, fe'}}
OUTSIDE = ['libsodium encodings (generic-group model); degenerate neutral elements', 'SHA-256 itself',
           'non-native lock for witnesses that exhaust the call budget (the property\'s stated exception)']
ASSUMPTIONS = ['generic-group model (sx/algebra.py) for the root arithmetic and for signatures made with x + t; signature oracle for the key path from '
               'an arbitrary witness state; SHA-256 uninterpreted (collision freedom only for the "different script / key" direction)',
               'EVAL of the committed script is summarised: the script bytes handed to the evaluator are logged, verdict symbolic']
EXPLANATION = ('(a) the 32 bytes pushed by make_taproot_lock equal P + clamp(sha256(P || sha256(S)))*G computed independently at integer level; '
               '(b) OP_TAPROOT from an arbitrary witness state: script path evaluates exactly the supplied script iff (script, key) recompute to '
               'the root, else 0x00 and no evaluation; key path verdict = oracle verdict under the root with the flag rules; (c) builder '
               'witnesses (key spend with sign_with_scalar on x + t, script spend) unlock their lock; (d) native and non-native lock agree')
MUST_REACH = ['graftap_ok', 'root_identity', 'script_path_run', 'script_path_reject', 'key_path', 'keyspend_ok', 'scriptspend_ok', 'nonnative_agrees']


def _setup(c):
    stubs.CONFIG.assume_nondegenerate = True
    _core.ABSTRACT['xor_uf'] = 'zero'
    _core.ABSTRACT['uf_digits'] = True


def _valid_point(c, name):
    p = c.bytes(name, 32)
    algebra.mark_point(p)
    return p


def _ref_root_k(P, S_commit):
    """discrete log of P + clamp(sha256(P || commitment))*G, computed at integer level (reference)"""
    h = stubs.hash_model('sha256', P + S_commit, 32)
    hv = zi(from_bytes_model(h, 'little'))
    # clamp_scalar without from_private_key: clear bit 255
    top = h[31]
    from sx.core import bits_of
    b7 = bits_of(top, 8)[7] if not isinstance(top, int) else z3.BoolVal(bool(top & 0x80))
    t = hv - z3.If(b7, 2 ** 255, 0)
    return zi(algebra.modL(algebra.dlog_point(P) + zi(algebra.modL(t))))


def h_root(c, pkg, slen):
    T_ = pkg.tools
    _setup(c)
    P = _valid_point(c, 'P')
    S = c.bytes('S', slen)
    with algebra.XorShortcut(pkg):
        script = T_.Script('', S)
        lock = T_.make_taproot_lock(P, script, None, '00')
        lb = lock.bytes
        OPT = pkg.functions.opcodes_inverse['OP_TAPROOT'][0]
        c.check('lock_is_push_root_then_taproot', len(lb) == 36 and lb[0] == 3 and lb[1] == 32 and lb[34] == OPT and lb[35] == 0)
        root = lb[2:34]
        kr = eng().run_cache.get('alg_k', {}).get(algebra._key(root))
        c.check('root_is_a_group_element_of_the_model', kr is not None)
        if kr is not None:
            want = _ref_root_k(P, stubs.hash_model('sha256', S, 32))
            c.check('root_is_P_plus_clamped_hash_times_G', mk_bool(kr[1] == want))
        # the same lock from the commitment only
        lock2 = T_.make_taproot_lock(P, None, script.commitment(), '00')
        c.check('lock_from_commitment_is_identical', len(lock2.bytes) == 36 and bytes_eq(lock2.bytes, lb))
    c.reach('root_identity')


def h_step(c, pkg, shape, allowed, slen=2):
    """OP_TAPROOT (through make_taproot_lock) from an arbitrary witness state"""
    T_ = pkg.tools
    _setup(c)
    stubs.CONFIG.collision_free = True
    fields, sf = _sigfields(c, 0b011)
    P = _valid_point(c, 'P')
    S = c.bytes('S', slen)
    with algebra.XorShortcut(pkg):
        lock = T_.make_taproot_lock(P, T_.Script('', S), None, '%02x' % allowed)
        root = lock.bytes[2:34]
        items = [c.bytes(f's{i}', n) for i, n in enumerate(shape)]
        for it in items:
            if len(it) == 32:
                # a supplied 32-byte item is used as a point: decodability is the model's business, validity is open
                pass
        sel = SelectiveByLenAny(pkg, c)
        with sel:
            ok, r, stack = _run_lock_from_state(pkg, lock.bytes, items, sf)
    if not shape:
        c.check('empty_witness_rejected', ok is False)
        return
    top = items[-1]
    if len(top) == 32:
        # script path: [..., script, key]
        if len(shape) < 2:
            c.check('missing_script_rejected', ok is False)
            return
        script, key = items[-2], top
        same = sym_and(len(script) == slen and bytes_eq(script, S), bytes_eq(key, P))
        kroot = eng().run_cache.get('alg_k', {}).get(algebra._key(root))[1]
        if sel.evaluated:
            c.reach('script_path_run')
            c.check('evaluated_exactly_the_supplied_script', len(sel.evaluated) == 1 and sel.evaluated[0] is script)
            # reference recomputation at integer level: key + clamp(sha256(key || sha256(script)))*G == root
            recomputed = mk_bool(_ref_root_k(key, stubs.hash_model('sha256', script, 32)) == kroot)
            c.check('script_runs_only_if_pair_recomputes_to_root', recomputed, script=script, key=key)
        else:
            c.reach('script_path_reject')
            if r[0] == 'ok':
                c.check('committed_pair_is_never_rejected', sym_not(same))
                c.check('rejected_pair_yields_false', ok is False)
    else:
        # key path: top item is the signature
        c.check('no_script_runs_on_the_key_path', not sel.evaluated)
        sig = top
        if len(sig) not in (64, 65) or len(shape) != 1:
            c.check('malformed_key_path_rejected', ok is False, shape=shape)
            return
        flag = sig[64] if len(sig) == 65 else 0
        msg = ref_message(fields, flag)
        want = sym_and(_subset(flag, allowed), mk_bool(stubs.valid_term(root, msg, sig[:64])))
        c.check('key_path_verdict_is_signature_under_root', ok == want)
        c.reach('key_path')


def h_keyspend(c, pkg, flag, allowed):
    """make_taproot_witness_keyspend (sign_with_scalar on x + t) against make_taproot_lock: group-algebra verification"""
    T_, F = pkg.tools, pkg.functions
    _setup(c)
    stubs.CONFIG.sig_mode = 'algebra'
    seed = c.bytes('seed', 32)
    S = c.bytes('S', 2)
    m = c.bytes('m', 2)
    sf = SDict({'sigfield1': m})
    sf.wlog = []
    with algebra.XorShortcut(pkg):
        X = F.derive_point_from_scalar(F.derive_key_from_seed(seed))
        algebra.mark_point(X)
        script = T_.Script('', S)
        lock = T_.make_taproot_lock(X, script, None, '%02x' % allowed)
        wit = T_.make_taproot_witness_keyspend(seed, sf, script, None, '%02x' % flag)
        r = outcome_of(F.run_auth_scripts, [wit, lock], sf)
    permitted = (flag & ~allowed & 0xff) == 0
    c.check('keyspend_witness_unlocks_iff_flag_permitted', r[0] == 'ok' and r[1] is permitted, got=repr(r)[:160])
    c.reach('keyspend_ok')


def h_graftap(c, pkg, flag, allowed):
    """the graftap builders: make_graftap_lock(X, allowed) is the taproot lock of (X, graftroot script of X) with that allowed-flags
    operand, and the key-spend witness made with `flag` unlocks it iff the flag is permitted"""
    T_, F = pkg.tools, pkg.functions
    _setup(c)
    stubs.CONFIG.sig_mode = 'algebra'
    seed = c.bytes('seed', 32)
    m = c.bytes('m', 2)
    sf = SDict({'sigfield1': m})
    sf.wlog = []
    al, fl = '%02x' % allowed, '%02x' % flag
    with algebra.XorShortcut(pkg):
        X = F.derive_point_from_scalar(F.derive_key_from_seed(seed))
        algebra.mark_point(X)
        lock = T_.make_graftap_lock(X, al)
        ref = T_.make_taproot_lock(X, T_._make_graftap_committed_script(X), None, al)
        c.check('graftap_lock_is_the_taproot_lock_of_key_and_graftroot_script', len(lock.bytes) == len(ref.bytes) and
                bytes_eq(lock.bytes, ref.bytes), allowed=al)
        wit = T_.make_graftap_witness_keyspend(seed, sf, fl)
        r = outcome_of(F.run_auth_scripts, [wit, lock], sf)
    permitted = (flag & ~allowed & 0xff) == 0
    c.check('graftap_keyspend_unlocks_iff_flag_permitted', r[0] == 'ok' and r[1] is permitted, got=repr(r)[:160], flag=fl, allowed=al)
    c.reach('graftap_ok')


def r_graftap(inputs, params, obligation):
    import tapescript
    import tapescript.tools as RT
    import tapescript.functions as RF
    seed = inputs.get('seed', bytes(32))
    sf = {'sigfield1': inputs.get('m', b'mm')}
    al, fl = '%02x' % params['allowed'], '%02x' % params['flag']
    try:
        X = RF.derive_point_from_scalar(RF.derive_key_from_seed(seed))
        lock = RT.make_graftap_lock(X, al)
        ref = RT.make_taproot_lock(X, RT._make_graftap_committed_script(X), None, al)
        got = tapescript.run_auth_scripts([RT.make_graftap_witness_keyspend(seed, dict(sf), fl), lock], dict(sf))
    except BaseException as e:       # noqa
        return {'reproduced': False, 'note': f'degenerate input: {type(e).__name__}: {e}'}
    want = (params['flag'] & ~params['allowed'] & 0xff) == 0
    return {'reproduced': lock.bytes != ref.bytes or got != want, 'lock_matches_reference': lock.bytes == ref.bytes, 'verdict': got,
            'want': want}


def h_scriptspend(c, pkg, slen):
    T_, F = pkg.tools, pkg.functions
    _setup(c)
    P = _valid_point(c, 'P')
    S = c.bytes('S', slen)
    with algebra.XorShortcut(pkg):
        script = T_.Script('', S)
        lock = T_.make_taproot_lock(P, script, None, '00')
        wit = T_.make_taproot_witness_scriptspend(P, script)
        sel = SelectiveByLenAny(pkg, c)
        with sel:
            r = outcome_of(F.run_auth_scripts, [wit, lock], SDict())
    c.check('never_raises', r[0] == 'ok', got=repr(r)[:160])
    c.check('committed_script_evaluated_exactly_once', len(sel.evaluated) == 1 and len(sel.evaluated[0]) == slen and
            bytes_eq(sel.evaluated[0], S))
    if r[0] == 'ok' and len(sel.evaluated) == 1:
        c.reach('scriptspend_ok')


def h_nonnative(c, pkg, shape, allowed):
    """native vs non-native lock on the same witness state: same verdict and same evaluated scripts"""
    T_, F = pkg.tools, pkg.functions
    _setup(c)
    stubs.CONFIG.collision_free = True
    stubs.CONFIG.log2_max_bits = 48
    fields, sf = _sigfields(c, 0b001)
    P = _valid_point(c, 'P')
    S = c.bytes('S', 2)
    with algebra.XorShortcut(pkg):
        script = T_.Script('', S)
        al = '%02x' % allowed
        native = T_.make_taproot_lock(P, script, None, al)
        nonnat = T_.make_nonnative_taproot_lock(P, script, None, al)
        items = [c.bytes(f's{i}', n) for i, n in enumerate(shape)]
        res = []
        for lock in (native, nonnat):
            sel = SelectiveByLenAny(pkg, c, only=items)
            sf2 = SDict(dict(sf.items()))
            with sel:
                ok, r, stack = _run_lock_from_state(pkg, lock.bytes, list(items), sf2)
            res.append((ok, [e for e in sel.evaluated]))
    (ok1, ev1), (ok2, ev2) = res
    c.check('same_scripts_evaluated', len(ev1) == len(ev2) and all(a is b or bytes_eq(a, b) is True for a, b in zip(ev1, ev2)),
            native=len(ev1), nonnative=len(ev2))
    c.check('same_verdict', ok1 == ok2, shape=shape)
    c.reach('nonnative_agrees')


# ------------------------------------------------------------------------------ concrete replays (real libsodium / sha256)
def _real_env(inputs):
    import tapescript.functions as RF
    from nacl.signing import SigningKey
    seed = inputs.get('seed', bytes(range(32)))
    X = RF.derive_point_from_scalar(RF.derive_key_from_seed(seed))
    return seed, X


def r_generic(inputs, params, obligation):
    """realise with a real internal key: build both locks, run builder witnesses, corrupted witnesses and the model's
    witness items; compare with an independent computation of the root and with native/non-native agreement"""
    import hashlib
    import tapescript
    import tapescript.tools as RT
    import tapescript.functions as RF
    from nacl.signing import VerifyKey
    seed, X = _real_env(inputs)
    S = inputs.get('S', b'\x01')
    script = RT.Script('', S)
    allowed = params.get('allowed', 0)
    al = '%02x' % allowed
    sf = {k: v for k, v in inputs.items() if k.startswith('sigfield')} or {'sigfield1': inputs.get('m', b'mm')}
    bad = []
    lock = RT.make_taproot_lock(X, script, None, al)
    # independent root: P + clamp(sha256(P || sha256(S)))*G with libsodium primitives
    h = bytearray(hashlib.sha256(X + hashlib.sha256(S).digest()).digest())
    h[31] &= 0x7f
    ref_root = RF.nacl.bindings.crypto_core_ed25519_add(X, RF.nacl.bindings.crypto_scalarmult_ed25519_base_noclamp(bytes(h)))
    if lock.bytes[2:34] != ref_root or len(lock.bytes) != 36:
        bad.append('root')
    flags = [0, 1]
    if isinstance(params.get('flag'), int) and params['flag'] not in flags:
        flags.append(params['flag'])          # the builder witness of this job's own flag
    s0 = inputs.get('s0')
    if params.get('shape') == [65] and isinstance(s0, (bytes, bytearray)) and len(s0) == 65:
        flags.append(s0[64])           # the flag byte of the model's signature, on a real signature by the root key
    for flag in flags:
        wit = RT.make_taproot_witness_keyspend(seed, dict(sf), script, None, '%02x' % flag)
        got = tapescript.run_auth_scripts([wit, lock], dict(sf))
        if got != ((flag & ~allowed & 0xff) == 0):
            bad.append(f'keyspend flag {flag}: {got}')
    for scr, want in ((RT.Script.from_src('true'), True), (RT.Script.from_src('false'), False)):
        lk = RT.make_taproot_lock(X, scr, None, al)
        w = RT.make_taproot_witness_scriptspend(X, scr)
        if tapescript.run_auth_scripts([w, lk]) != want:
            bad.append(f'scriptspend {scr.src}')
        wrong = RT.make_taproot_witness_scriptspend(X, RT.Script.from_src('true true pop0'))
        if tapescript.run_auth_scripts([wrong, lk]):
            bad.append('foreign script accepted')
        nn = RT.make_nonnative_taproot_lock(X, scr, None, al)
        for wv in (w, wrong, RT.make_taproot_witness_keyspend(seed, dict(sf), scr, None, '00')):
            if tapescript.run_auth_scripts([wv, lk], dict(sf)) != tapescript.run_auth_scripts([wv, nn], dict(sf)):
                bad.append('native / non-native disagree')
    # the model's witness items on both locks
    shape = params.get('shape')
    if shape is not None:
        items = [inputs.get(f's{i}', bytes(n)) for i, n in enumerate(shape)]
        nn = RT.make_nonnative_taproot_lock(X, script, None, al)
        outs = []
        for lk in (lock, nn):
            st = tapescript.Stack()
            for it in items:
                st.put(it)
            r = outcome_of(tapescript.run_tape, tapescript.Tape(lk.bytes), st, dict(sf))
            outs.append(r[0] == 'ok' and st.list() == [b'\xff'])
        if outs[0] != outs[1]:
            bad.append(f'model witness: native {outs[0]} non-native {outs[1]}')
    return {'reproduced': bool(bad), 'bad': bad[:5]}


def _fallback(params, rng):
    return {'seed': rng.randbytes(32), 'S': rng.randbytes(params.get('slen', 2)), 'm': rng.randbytes(2),
            'sigfield1': rng.randbytes(2)}


def _sig(v):
    return {'harness': v['harness'], 'obligation': v['obligation']}


SHAPES = [[], [64], [65], [63], [1], [2, 32], [3, 32], [32], [1, 2, 32], [64, 32], [2, 64]]


def _p_step(tier):
    als = (0, 3) if tier == 'quick' else (0, 1, 3, 255)
    out = [{'shape': sh, 'allowed': a} for sh in SHAPES for a in als]
    # key path with a flag byte: every single permission bit and some mixed masks (the flag byte itself is symbolic)
    more = (0x20, 0x40, 0x80, 0x5a) if tier == 'quick' else (0x04, 0x08, 0x10, 0x20, 0x40, 0x80, 0x5a, 0xa5, 0x7f, 0xfe)
    out += [{'shape': [65], 'allowed': a} for a in more if a not in als]
    # the operand byte must be consumed on every path: operand values that are harmful as *opcodes* if it were left on the tape
    # (2e = OP_NOT turns the pushed false into true, 25 / 27 = timestamp / epoch checks, 21 = OP_EQUAL, 06 = OP_POP0)
    ops = (0x2e, 0x25, 0x06) if tier == 'quick' else (0x2e, 0x25, 0x27, 0x21, 0x3f, 0x06, 0x26, 0x28, 0x56, 0x57)
    out += [{'shape': sh, 'allowed': a} for a in ops for sh in ([2, 32], [3, 32], [1, 2, 32])]
    return out


def _p_nn(tier):
    shapes = [[], [64], [65], [1], [2, 32], [3, 32], [32]] if tier == 'quick' else SHAPES
    return [{'shape': sh, 'allowed': a} for sh in shapes for a in ((0,) if tier == 'quick' else (0, 3))]


HARNESSES = [
    HarnessSpec('root', h_root, lambda t: [{'slen': n} for n in ((1, 3) if t == 'quick' else (1, 2, 3, 8))], witness_replay=True, replay=r_generic,
                signature=_sig, fallback=_fallback),
    HarnessSpec('step', h_step, _p_step, replay=r_generic, signature=_sig, fallback=_fallback),
    HarnessSpec('graftap', h_graftap, lambda t: [{'flag': f, 'allowed': a} for f, a in ((0, 0), (1, 3), (4, 3), (0x40, 0x40), (0x80, 0x80), (0x81, 0xff)) +
                                                 (((2, 2), (0x80, 0x7f), (0x81, 0x81)) if t != 'quick' else ())],
                witness_replay=True, replay=r_graftap, signature=_sig, fallback=_fallback),
    HarnessSpec('keyspend', h_keyspend, [{'flag': 0, 'allowed': 0}, {'flag': 1, 'allowed': 3}, {'flag': 4, 'allowed': 3},
                                         {'flag': 0x80, 'allowed': 0x80}, {'flag': 0xc1, 'allowed': 0xff}], witness_replay=True, replay=r_generic,
                signature=_sig, fallback=_fallback),
    HarnessSpec('scriptspend', h_scriptspend, lambda t: [{'slen': n} for n in ((1, 3) if t == 'quick' else (1, 2, 3, 8))],
                replay=r_generic, signature=_sig, fallback=_fallback),
    HarnessSpec('nonnative', h_nonnative, _p_nn, replay=r_generic, signature=_sig, fallback=_fallback),
]
