"""./check <ID> [--tier quick|thorough] [--replay <file>] [--procs N]"""
from __future__ import annotations
import argparse
import importlib
import json
import os
import sys

sys.setrecursionlimit(10000)
# development aid (evaluating a changed copy of the package without touching /repo): the registered commands never set these
if os.environ.get('VERIF_REPO'):
    sys.path.insert(0, os.environ['VERIF_REPO'])


def main():
    ap = argparse.ArgumentParser()
    ap.add_argument('pid')
    ap.add_argument('--tier', default=os.environ.get('VERIF_TIER', 'quick'), choices=['quick', 'thorough'])
    ap.add_argument('--replay')
    ap.add_argument('--procs', type=int, default=None)
    ap.add_argument('--only', default=None, help='run only harnesses whose name contains this')
    a = ap.parse_args()
    pid = a.pid.upper()
    seed = int(os.environ.get('VERIF_SEED', '0') or 0)
    modname = f'checks.{pid.lower()}'
    try:
        mod = importlib.import_module(modname)
    except ModuleNotFoundError as e:
        print(f'no check for {pid}: {e}', file=sys.stderr)
        return 2
    if a.replay:
        from sx.harness import unjson
        v = json.load(open(a.replay))
        spec = next(s for s in mod.HARNESSES if s.name == v['harness'])
        rep = spec.replay(unjson(v['inputs']), unjson(v['params']), v['obligation'])
        print(json.dumps({'harness': v['harness'], 'obligation': v['obligation'], 'replay': rep}, default=str,
                         indent=1))
        if rep.get('reproduced'):
            print(f'VIOLATION property={pid} replay={a.replay}')
            return 1
        return 0
    if a.only:
        mod.HARNESSES = [s for s in mod.HARNESSES if a.only in s.name]
        mod.MUST_REACH = []
    from sx.harness import CheckRunner
    return CheckRunner(pid, modname, a.tier, seed, a.procs).run()


if __name__ == '__main__':
    sys.exit(main())
