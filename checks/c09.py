"""C09 — embedder configuration applies uniformly at every nesting level."""
from __future__ import annotations
import z3
from sx.harness import HarnessSpec, auto_replay
from sx.core import SymInt, SymBool, mk_bool, zi, to_z3bool, sym_and, sym_or, sym_not, eng
from sx.values import SymBytes, mk_bytes, items_of, bytes_eq, from_bytes_model
from sx.containers import SDict, key_eq
from sx import stubs
from . import vmstep
from .common import outcome_of, exc_name, pinned_clock

FUNCTIONS = ['functions:OP_DEF', 'functions:OP_CALL', 'functions:OP_IF', 'functions:OP_IF_ELSE', 'functions:OP_EVAL',
             'functions:OP_TRY_EXCEPT', 'functions:OP_LOOP', 'functions:OP_MERKLEVAL', 'functions:OP_TAPROOT',
             'functions:OP_CHECK_TEMPLATE', 'functions:OP_SET_FLAG', 'functions:OP_UNSET_FLAG', 'functions:set_tape_flags',
             'functions:run_tape', 'functions:run_script', 'functions:run_plugins', 'functions:run_sig_extensions',
             'functions:OP_CHECK_SIG', 'functions:OP_GET_MESSAGE', 'functions:OP_SIGN', 'functions:OP_CHECK_MULTISIG']
BOUNDS = {'quick': {'constructs': 'IF, IF_ELSE (both arms), TRY and EXCEPT, LOOP (<= 2 iterations), DEF+CALL, EVAL, MERKLEVAL, TAPROOT script path',
                    'flags': 'every flag 0..10 an arbitrary boolean, ts/epoch thresholds arbitrary integers, disallow_OP_EVAL present/absent, '
                             'eval_return arbitrary boolean', 'flag_instruction_operand': 'symbolic, 0..3 bytes',
                    'end_to_end': 'depth-2 nestings of the constructs around a probe instruction, real nested execution'},
          'thorough': {'constructs': 'as quick', 'flags': 'as quick', 'flag_instruction_operand': 'symbolic, 0..4 bytes',
                       'end_to_end': 'depth-2 and selected depth-3 nestings'}}
OUTSIDE = ['nestings deeper than the induction step shows (the step is per construct and holds for every body, so depth is unbounded for the '
           'lemma; the end-to-end runs are bounded)', 'plugins other than a recording signature-extension / check_template stub']
ASSUMPTIONS = ['P2: the configuration a body executes under is what the real set_tape_flags computes from what the construct hands to run_tape; '
               'by induction over nesting, equality with the parent at every construct gives uniformity at every depth',
               'the embedder supplies flags through additional_flags of run_script / run_tape']
EXPLANATION = ('(1) per construct, one step with the nested run summarised: the flags, plugins and contracts the body runs under equal the '
               "parent's (and the parent's own flags are unchanged by the construct); (2) signature-related instructions call the "
               'signature-extension plugin exactly once; (3) OP_SET_FLAG / OP_UNSET_FLAG with a symbolic operand change exactly the integer '
               'flag named by the operand; (4) end-to-end: real nested execution of probe programs under embedder flags / plugins / contracts')
MUST_REACH = ['body_config_compared', 'second_body_compared', 'plugin_called', 'flag_set', 'flag_unset', 'e2e_probe']

INT_FLAGS = list(range(11))


def embedder_flags(c):
    d = c.dict()
    for i in INT_FLAGS:
        d[i] = c.bool(f'flag{i}')
    d['ts_threshold'] = c.int('ts_threshold')
    d['epoch_threshold'] = c.int('epoch_threshold')
    if bool(c.bool('has_disallow_eval')):
        d['disallow_OP_EVAL'] = True
    d['eval_return'] = c.bool('eval_return')
    if hasattr(d, 'wlog'):
        d.wlog = []
    return d


def flags_equal(a, b):
    """all keys and values equal (non-forking where possible)"""
    ka, kb = list(a.keys()), list(b.keys())
    if set(map(repr, ka)) != set(map(repr, kb)):
        return False, f'keys {ka} vs {kb}'
    conds = []
    for k in ka:
        va, vb = a[k], b[k]
        if isinstance(va, (SymBool, bool)) and isinstance(vb, (SymBool, bool)):
            conds.append(mk_bool(to_z3bool(va) == to_z3bool(vb)))
        elif isinstance(va, (SymInt, int)) and isinstance(vb, (SymInt, int)) and not isinstance(va, bool) \
                and not isinstance(vb, bool):
            conds.append(mk_bool(zi(va) == zi(vb)))
        else:
            if type(va) is not type(vb) or va != vb:
                return False, f'value of {k!r}: {va!r} vs {vb!r}'
    return sym_and(*conds), ''


def plugin_stub(log, name):
    def plugin(tape, stack, cache):
        log.append(name)
        return True
    return plugin


CONSTRUCTS = {
    # name: (tape operands builder, stack lens, prepare)
    'OP_IF': (lambda: b'\x00\x01\x00', [1]),
    'OP_IF_ELSE': (lambda: b'\x00\x01\x00\x00\x01\x01', [1]),
    'OP_TRY_EXCEPT': (lambda: b'\x00\x01\x00\x00\x01\x01', []),
    'OP_LOOP': (lambda: b'\x00\x01\x00', [1]),
    'OP_EVAL': (lambda: b'', [2]),
    'OP_CALL': (lambda: b'\x00', []),
}


def h_construct(c, pkg, op, pre=None):
    """one construct from a parent running under an arbitrary embedder configuration; `pre`: the parent first executes
    that real flag instruction on flag 1.  Bodies are summarised and may themselves execute a flag instruction."""
    F, C = pkg.functions, pkg.classes
    emb = embedder_flags(c)
    log = []
    plugins = c.dict({'signature_extensions': [plugin_stub(log, 'sigext')], 'check_template': [plugin_stub(log, 'ct')]})
    contract = vmstep.StubContract(c)
    contracts = c.dict({b'C': contract})
    operands, lens = CONSTRUCTS[op]
    tape = C.Tape(operands(), callstack_limit=3, callstack_count=1, contracts=contracts, plugins=plugins)
    # the parent runs under the embedder's configuration, computed by the real code
    F.set_tape_flags(tape, emb)
    stack = C.Stack()
    for i, n in enumerate(lens):
        stack.put(c.bytes(f's{i}', n))
    cache = c.dict()
    # the flags of the scope in which functions get defined (an outer scope: a flag-copying construct such as IF hands its body a
    # copy, so the calling scope below may have changed a flag since)
    outer_flags = tape.flags.copy()
    if pre:
        getattr(F, pre)(C.Tape(b'\x01\x01', flags=tape.flags), stack, cache)
    parent_before = tape.flags.copy()
    summ = vmstep.make_summary(c, pkg, pops=0, pushes=0, writes_cache=False, may_return=False, flag_ops=True, parent=tape)
    if op == 'OP_CALL':
        # define function 0 with the real OP_DEF first (its sub-tape construction is part of the claim)
        dt = C.Tape(b'\x00\x00\x01\x00', callstack_limit=3, callstack_count=1, contracts=contracts, plugins=plugins,
                    flags=(outer_flags if pre else tape.flags), definitions=tape.definitions)
        F.OP_DEF(dt, stack, cache)
    with vmstep.Installed(pkg, summ):
        r = outcome_of(getattr(F, op), tape, stack, cache)
    if not any(b.flag_op for b in summ.bodies) or op == 'OP_EVAL':
        # nothing but a flag instruction changes the parent's flags (an evaluated script cannot change them at all)
        eq, why = flags_equal(tape.flags, parent_before)
        c.check('parent_flags_unchanged_by_construct', eq, why=why, op=op)
    for b in summ.bodies:
        c.reach('body_config_compared')
        if b.k:
            c.reach('second_body_compared')
        # entering a body changes no flag: the body runs under exactly the flags in force at that point
        eq, why = flags_equal(b.effective_flags, b.parent_flags_at_entry)
        c.check('body_flags_equal_parent_flags', eq, why=why, op=op, body=b.k)
        if b.k and summ.bodies[b.k - 1].tape is b.tape:
            # the next run of the same body (loop iteration) starts from the flags the previous one ended with
            eq, why = flags_equal(b.effective_flags, summ.bodies[b.k - 1].flags_at_exit)
            c.check('flag_instruction_effect_survives_loop_boundary', eq, why=why, op=op, body=b.k)
        c.check('body_sees_parent_signature_extensions',
                'signature_extensions' in b.plugins and list(b.plugins['signature_extensions']) ==
                list(plugins['signature_extensions']), op=op, body=b.k)
        c.check('body_sees_parent_check_template_plugins',
                'check_template' in b.plugins and list(b.plugins['check_template']) == list(plugins['check_template']),
                op=op, body=b.k)
        c.check('body_sees_parent_contracts', b'C' in b.contracts and b.contracts[b'C'] is contract, op=op, body=b.k)
        c.check('body_call_limit_is_parent_limit', b.callstack_limit == 3)
        # the call budget already spent governs the body too: carried into IF / ELSE / TRY / EXCEPT / LOOP bodies, one more for CALL / EVAL
        c.check('body_call_count_is_parent_count', b.callstack_count == (2 if op in ('OP_CALL', 'OP_EVAL') else 1), op=op, body=b.k,
                count=b.callstack_count)
    if op == 'OP_EVAL':
        if 'disallow_OP_EVAL' in parent_before:
            c.check('disallowed_eval_stays_disallowed', r[0] == 'raise' and not summ.bodies)


# ------------------------------------------------------------------------------ plugin exactly once
SIG_OPS = {
    'OP_CHECK_SIG': (lambda: b'\x00', [64, 32]),
    'OP_CHECK_SIG_VERIFY': (lambda: b'\x00', [64, 32]),
    'OP_GET_MESSAGE': (lambda: b'\x00', []),
    'OP_SIGN': (lambda: b'\x00', [32]),
    'OP_CHECK_MULTISIG': (lambda: b'\x00\x01\x01', [64, 32]),
    # quorums with zero, several and non-first key attempts: still exactly one run per instruction
    'OP_CHECK_MULTISIG/0of1': (lambda: b'\x00\x00\x01', [32]),
    'OP_CHECK_MULTISIG/1of2': (lambda: b'\x00\x01\x02', [64, 32, 32]),
    'OP_CHECK_MULTISIG/2of2': (lambda: b'\x00\x02\x02', [64, 64, 32, 32]),
    'OP_CHECK_MULTISIG_VERIFY/2of3': (lambda: b'\x00\x02\x03', [64, 64, 32, 32, 32]),
    'OP_CHECK_TEMPLATE': (lambda: b'\x01', [1]),
    'OP_TAPROOT': (lambda: b'\x00', [64, 32]),
}


def h_plugin_once(c, pkg, op):
    F, C = pkg.functions, pkg.classes
    log = []
    plugins = SDict({'signature_extensions': [plugin_stub(log, 'sigext')], 'check_template': []})
    operands, lens = SIG_OPS[op]
    tape = C.Tape(operands(), plugins=plugins)
    F.set_tape_flags(tape, SDict())
    stack = C.Stack()
    for i, n in enumerate(lens):
        stack.put(c.bytes(f's{i}', n))
    cache = SDict({'sigfield1': c.bytes('sigfield1', 1)})
    stubs.CONFIG.sig_mode = 'oracle'
    r = outcome_of(getattr(F, op.split('/')[0]), tape, stack, cache)
    n = log.count('sigext')
    want = 1
    c.check('signature_extension_runs_exactly_once', n == want, op=op, calls=n, outcome=repr(r)[:80])
    c.reach('plugin_called')


def r_plugin_once(inputs, params, obligation):
    import tapescript
    import tapescript.functions as RF
    op = params['op']
    operands, lens = SIG_OPS[op]
    calls = []
    tape = tapescript.Tape(operands(), plugins={'signature_extensions': [lambda t, s, ch: calls.append(1)],
                                                 'check_template': []})
    RF.set_tape_flags(tape)
    stack = tapescript.Stack()
    for i, n in enumerate(lens):
        stack.put(inputs.get(f's{i}', b'\x00' * n))
    outcome_of(getattr(RF, op.split('/')[0]), tape, stack, {'sigfield1': inputs.get('sigfield1', b'a')})
    return {'reproduced': len(calls) != 1, 'calls': len(calls)}


# ------------------------------------------------------------------------------ flag instructions
def h_flag_op(c, pkg, op, k):
    F, C = pkg.functions, pkg.classes
    emb = embedder_flags(c)
    operand = c.bytes('operand', k)
    tape = C.Tape(bytes([k]) + operand)
    F.set_tape_flags(tape, emb)
    before = tape.flags.copy()
    stack = C.Stack()
    r = outcome_of(getattr(F, op), tape, stack, SDict())
    after = tape.flags
    # the integer the operand names (signed big-endian, as the compiler encodes `d<n>`)
    named = from_bytes_model(operand, 'big', signed=True) if k else None
    is_known_int = sym_or(*[named == i for i in INT_FLAGS]) if k else False
    changed = []
    for key in list(before.keys()):
        if key not in after:
            changed.append((key, 'removed'))
        else:
            va, vb = before[key], after[key]
            same = True if va is vb else mk_bool(to_z3bool(va) == to_z3bool(vb)) if isinstance(va, (bool, SymBool)) else \
                mk_bool(zi(va) == zi(vb)) if isinstance(va, (int, SymInt)) else va == vb
            if same is not True:
                changed.append((key, same))
    new_keys = [key for key in after.keys() if key not in before]
    c.check('no_new_keys', not new_keys, keys=repr(new_keys))
    if op == 'OP_SET_FLAG':
        if r[0] == 'raise':
            c.check('set_flag_rejects_only_unknown_flags', sym_not(is_known_int), got=repr(r[1]), operand=operand)
            c.check('nothing_changed_on_error', not changed)
            return
        c.check('set_flag_accepts_only_known_flags', is_known_int, operand=operand)
        # exactly the named flag has its default value, all others unchanged
        for i in INT_FLAGS:
            hit = mk_bool(zi(named) == i) if k else False
            v = after[i] if i in after else None
            if v is None:
                c.check('named_flag_set_to_default', sym_not(hit))
                continue
            default = pkg.functions.flags[i]
            is_default = mk_bool(to_z3bool(v) == default)
            unchanged = mk_bool(to_z3bool(v) == to_z3bool(before[i]))
            c.check('named_flag_set_to_default', sym_or(sym_not(hit), is_default), flag=i)
            c.check('other_flags_unchanged', sym_or(hit, unchanged), flag=i)
        c.reach('flag_set')
    else:
        c.check('unset_flag_never_raises', r[0] == 'ok', got=repr(r))
        for i in INT_FLAGS:
            hit = mk_bool(zi(named) == i) if k else False
            present = i in after
            # the named flag reads as off afterwards (absent, or present and False); every other flag is untouched
            if present:
                off = mk_bool(z3.Not(to_z3bool(after[i])))
                unchanged = mk_bool(to_z3bool(after[i]) == to_z3bool(before[i]))
                c.check('named_flag_is_off', sym_or(sym_not(hit), off), flag=i, operand=operand)
                c.check('other_flags_unchanged', sym_or(hit, unchanged), flag=i)
            else:
                c.check('only_named_flag_removed', hit, flag=i)
        c.reach('flag_unset')
    for key in ('ts_threshold', 'epoch_threshold', 'eval_return'):
        c.check('non_integer_flags_untouched', key in after and after[key] is before[key], key=key)


def r_flag_op(inputs, params, obligation):
    import tapescript
    import tapescript.functions as RF
    op, k = params['op'], params['k']
    operand = inputs.get('operand', b'')
    tape = tapescript.Tape(bytes([k]) + operand)
    RF.set_tape_flags(tape, {i: inputs.get(f'flag{i}', True) for i in INT_FLAGS})
    before = dict(tape.flags)
    r = outcome_of(getattr(RF, op), tape, tapescript.Stack(), {})
    named = int.from_bytes(operand, 'big', signed=True) if k else None
    after = dict(tape.flags)
    if op == 'OP_SET_FLAG':
        if named in INT_FLAGS:
            ok = r[0] == 'ok' and after.get(named) == RF.flags[named] and all(after.get(i) == before.get(i) for i in before if i != named)
        else:
            ok = r[0] == 'raise' and after == before
    else:
        if named in INT_FLAGS:
            ok = r[0] == 'ok' and not after.get(named, False) and all(after.get(i) == before.get(i) for i in before if i != named)
        else:
            ok = r[0] == 'ok' and after == before
    return {'reproduced': not ok, 'operand': operand.hex(), 'named': named, 'outcome': repr(r)[:120],
            'changed': {str(i): (before.get(i), after.get(i)) for i in set(before) | set(after) if before.get(i) != after.get(i)}}


# ------------------------------------------------------------------------------ end-to-end probes
WRAPS = {
    'top': '{B}', 'if': 'true if { {B} }', 'else': 'false if { } else { {B} }', 'try': 'try { {B} } except { }',
    'except': 'try { false verify } except { {B} }', 'loop': 'true loop { {B} pop0 false } pop0', 'call': 'def 0 { {B} } call d0',
    'eval': 'push ~ { {B} } eval',
}
PROBES = {
    # probe source, observation
    'flag1': 'push x' + '11' * 32 + ' derive_scalar pop0',          # writes cache[b"x"] iff flag 1 is on
    'plugin': 'msg x00 pop0',                                          # calls the signature extension once
    'contract': 'push d0 push s"C" invoke',                            # reaches contract b"C"
    'unset1': 'push x' + '11' * 32 + ' derive_scalar pop0',            # after a top-level `unset_flag d1`: never writes
}


def _nest(path, probe):
    src = PROBES[probe]
    for w in reversed(path):
        src = WRAPS[w].replace('{B}', src)
    if probe == 'unset1':
        src = 'unset_flag d1 ' + src
    return src


def h_e2e(c, pkg, path, probe):
    F, P = pkg.functions, pkg.parsing
    src = _nest(path, probe)
    code = P.compile_script(src)
    log = []
    plugins = SDict({'signature_extensions': [plugin_stub(log, 'sigext')]})
    contract = vmstep.StubContract(c)
    flag1 = c.bool('flag1')
    r = outcome_of(F.run_script, code, SDict({'sigfield1': b'a'}), SDict({b'C': contract}), SDict({1: flag1}), plugins)
    c.check('probe_program_runs', r[0] == 'ok', got=repr(r)[:200], src=src)
    if r[0] != 'ok':
        return
    tape, stack, cache = r[1]
    if probe == 'flag1':
        wrote = b'x' in cache
        c.check('flag_turned_off_stays_off_at_every_level', wrote == flag1, path='/'.join(path))
    elif probe == 'unset1':
        c.check('flag_unset_by_instruction_stays_off_at_every_level', b'x' not in cache, path='/'.join(path))
    elif probe == 'plugin':
        c.check('signature_extension_runs_exactly_once_per_instruction', log.count('sigext') == 1, calls=len(log),
                path='/'.join(path))
    else:
        c.check('contract_reachable_at_every_level', 'abi' in contract.calls, path='/'.join(path))
    c.reach('e2e_probe')


def r_e2e(inputs, params, obligation):
    import tapescript
    path, probe = params['path'], params['probe']
    src = _nest(path, probe)
    code = tapescript.compile_script(src)
    calls = []

    class Cn:
        def __init__(self):
            self.n = 0

        def abi(self, args):
            self.n += 1
            return None
    cn = Cn()
    flag1 = inputs.get('flag1', False)
    r = outcome_of(tapescript.run_script, code, {'sigfield1': b'a'}, {b'C': cn}, {1: flag1},
                   {'signature_extensions': [lambda t, s, ch: calls.append(1)]})
    if r[0] != 'ok':
        return {'reproduced': True, 'raised': repr(r[1])[:200], 'src': src}
    cache = r[1][2]
    bad = {'flag1': (b'x' in cache) != bool(flag1), 'plugin': len(calls) != 1, 'contract': cn.n != 1,
           'unset1': b'x' in cache}[probe]
    return {'reproduced': bool(bad), 'src': src, 'flag1': flag1, 'wrote_x': b'x' in cache, 'plugin_calls': len(calls),
            'contract_calls': cn.n}


def _p_e2e(tier):
    ws = [w for w in WRAPS if w != 'top']
    paths = [['top']] + [[w] for w in ws] + [[a, b] for a in ws for b in ws if not (a == 'call' and b == 'call')]
    if tier != 'quick':
        paths += [[a, b, d] for a in ('if', 'call', 'loop', 'eval') for b in ('try', 'else', 'except') for d in ('loop', 'eval', 'if')]
    return [{'path': p, 'probe': pr} for p in paths for pr in PROBES]


def _sig(v):
    p = v['params']
    return {'harness': v['harness'], 'obligation': v['obligation'], 'op': p.get('op'),
            'path': '/'.join(p['path']) if 'path' in p else None}


HARNESSES = [
    HarnessSpec('construct', h_construct, [{'op': o, 'pre': p} for o in CONSTRUCTS for p in (None, 'OP_UNSET_FLAG', 'OP_SET_FLAG')],
                replay=auto_replay(h_construct), signature=_sig, witness_replay=True, witness_every=5),
    HarnessSpec('plugin_once', h_plugin_once, [{'op': o} for o in SIG_OPS], replay=r_plugin_once, signature=_sig),
    HarnessSpec('flag_op', h_flag_op, lambda t: [{'op': o, 'k': k} for o in ('OP_SET_FLAG', 'OP_UNSET_FLAG')
                                                for k in (range(0, 4) if t == 'quick' else range(0, 5))],
                replay=r_flag_op, signature=_sig),
    HarnessSpec('e2e', h_e2e, _p_e2e, replay=r_e2e, signature=_sig),
]
