"""Which properties are claimed, at what level, with what trusted base (source of MANIFEST.json)."""
TECH = 'SMT-backed symbolic execution of the real Python source (z3, all paths within stated bounds)'
CHECKS = {
    'C10': dict(
        text='Bounded symbolic check: int_to_bytes / bytes_to_int / uint_to_bytes / bytes_to_bool and the integer '
             'instructions are executed from the working-tree source on unbounded z3 integers; round trip, sign bit, '
             'totality and exact arithmetic are unsat queries on every path, for every integer of up to the stated '
             'number of bytes (24 quick / 160 thorough). A bounded claim modulo the log2 contract, not a proof for all integers.',
        design_ref='DESIGN.md section 4 C10',
        note='Trusted: the SX engine (validated per run by witness replay against CPython), z3, the math.log2 contract stub '
             '(floor(log2 n) in {bitlen-1, bitlen}; exact below 2^40) which is validated only by concrete evaluation at 2^k+d.',
        technique=TECH),
}
CHECKS['C16'] = dict(
    text='OP_CHECK_TIMESTAMP / OP_CHECK_EPOCH and their _VERIFY forms are executed symbolically for unbounded integer t, '
         'now and thresholds and every constraint byte string of 1..9 (thorough 1..24) bytes; the three lock builders are '
         'executed end to end (f-string, compiler, run_auth_scripts) with symbolic timestamps; each verdict is compared with '
         'the documented predicate by an unsat query. Linear integer arithmetic, so within the byte-length bound the '
         'window boundaries are decided for all values, not sampled.',
    design_ref='DESIGN.md section 4 C16',
    note='Trusted: SX engine (witness replay per path), z3, clock stub (time() = arbitrary integer now >= 0), log2 contract '
         'stub inside int_to_bytes. Known finding F5 (before-lock accepts far-future t) is listed in known_findings.json.',
    technique=TECH)
CHECKS['C02'] = dict(
    text='OP_CHECK_SIG(_VERIFY), OP_GET_MESSAGE, OP_SIGN, OP_SIGN_STACK and OP_CHECK_SIG_STACK are executed symbolically for all '
         '256 flag bytes x all 256 allowed operands (symbolic bits), all 256 presence subsets of sigfield1..8 with symbolic contents '
         '(fixed length profiles), symbolic key / signature / seed, and the error lengths. On every path the (key, message, signature) '
         'triple handed to the Ed25519 oracle, the error class and the stack result are compared with a reference message builder '
         'by unsat queries; sign-then-check is one symbolic run. Bounded in the sigfield length profiles only.',
    design_ref='DESIGN.md section 4 C02',
    note='Trusted: SX engine (witness replay against the real op with the verifier replaced by the model verdict), z3, the '
         'signature-oracle stub for libsodium (valid(k,m,s) uninterpreted; sign returns s with valid(pub(seed),m,s)). Counterexamples are '
         'realised with real Ed25519 keys/signatures and replayed on the real package before being reported.',
    technique=TECH)
CHECKS['C03'] = dict(
    text='OP_CHECK_MULTISIG(_VERIFY) over the real OP_CHECK_SIG is executed symbolically for n <= 4 keys (5 thorough), every m <= n, '
         'symbolic keys, signatures and flag bytes, with the whole validity matrix valid(key_j, message(flag_i), sig_i) left to the '
         'solver, so duplicates, outsiders, two signatures by one key with different flags and every order are models, not samples. '
         'Per path one unsat query: the verdict is true iff an injective assignment of the signatures to valid keys exists.',
    design_ref='DESIGN.md section 4 C03',
    note='Trusted: SX engine, z3, signature-oracle stub. Assumes pairwise distinct listed keys and that one signature string verifies '
         'under at most one listed key (excludes model-only counterexamples to greedy matching). Counterexamples are realised with real '
         'Ed25519 keys and signatures before being reported.',
    technique=TECH)
NOT_APPLICABLE = {}
NOTES = ('Exit codes of every check: 0 held on everything explored; 1 + VIOLATION line for a counterexample that was '
         'replayed on the real package and is not a listed known finding; 2 harness error / unsupported construct / '
         'solver unknown / bound exceeded / non-reproducing counterexample (never reported as a pass).')
