"""Which properties are claimed, at what level, with what trusted base (source of MANIFEST.json)."""
TECH = 'SMT-backed symbolic execution of the real Python source (z3, all paths within stated bounds)'
CHECKS = {
    'C10': dict(
        text='Bounded symbolic check: int_to_bytes / bytes_to_int / uint_to_bytes / bytes_to_bool and the integer '
             'instructions are executed from the working-tree source on unbounded z3 integers; round trip, sign bit, '
             'totality and exact arithmetic are unsat queries on every path, for every integer of up to the stated '
             'number of bytes (24 quick / 160 thorough). A bounded claim modulo the log2 contract, not a proof for all integers.',
        design_ref='DESIGN.md section 4 C10',
        note='Trusted: the SX engine (validated per run by witness replay against CPython), z3, the math.log2 contract stub '
             '(floor(log2 n) in {bitlen-1, bitlen}; exact below 2^40) which is validated only by concrete evaluation at 2^k+d.',
        technique=TECH),
}
CHECKS['C16'] = dict(
    text='OP_CHECK_TIMESTAMP / OP_CHECK_EPOCH and their _VERIFY forms are executed symbolically for unbounded integer t, '
         'now and thresholds and every constraint byte string of 1..9 (thorough 1..24) bytes; the three lock builders are '
         'executed end to end (f-string, compiler, run_auth_scripts) with symbolic timestamps; each verdict is compared with '
         'the documented predicate by an unsat query. Linear integer arithmetic, so within the byte-length bound the '
         'window boundaries are decided for all values, not sampled.',
    design_ref='DESIGN.md section 4 C16',
    note='Trusted: SX engine (witness replay per path), z3, clock stub (time() = arbitrary integer now >= 0), log2 contract '
         'stub inside int_to_bytes. Known finding F5 (before-lock accepts far-future t) is listed in known_findings.json.',
    technique=TECH)
CHECKS['C02'] = dict(
    text='OP_CHECK_SIG(_VERIFY), OP_GET_MESSAGE, OP_SIGN, OP_SIGN_STACK and OP_CHECK_SIG_STACK are executed symbolically for all '
         '256 flag bytes x all 256 allowed operands (symbolic bits), all 256 presence subsets of sigfield1..8 with symbolic contents '
         '(fixed length profiles), symbolic key / signature / seed, and the error lengths. On every path the (key, message, signature) '
         'triple handed to the Ed25519 oracle, the error class and the stack result are compared with a reference message builder '
         'by unsat queries; sign-then-check is one symbolic run. Bounded in the sigfield length profiles only.',
    design_ref='DESIGN.md section 4 C02',
    note='Trusted: SX engine (witness replay against the real op with the verifier replaced by the model verdict), z3, the '
         'signature-oracle stub for libsodium (valid(k,m,s) uninterpreted; sign returns s with valid(pub(seed),m,s)). Counterexamples are '
         'realised with real Ed25519 keys/signatures and replayed on the real package before being reported.',
    technique=TECH)
CHECKS['C03'] = dict(
    text='OP_CHECK_MULTISIG(_VERIFY) over the real OP_CHECK_SIG is executed symbolically for n <= 4 keys (5 thorough), every m <= n, '
         'symbolic keys, signatures and flag bytes, with the whole validity matrix valid(key_j, message(flag_i), sig_i) left to the '
         'solver, so duplicates, outsiders, two signatures by one key with different flags and every order are models, not samples. '
         'Per path one unsat query: the verdict is true iff an injective assignment of the signatures to valid keys exists.',
    design_ref='DESIGN.md section 4 C03',
    note='Trusted: SX engine, z3, signature-oracle stub. Assumes pairwise distinct listed keys and that one signature string verifies '
         'under at most one listed key (excludes model-only counterexamples to greedy matching). Counterexamples are realised with real '
         'Ed25519 keys and signatures before being reported.',
    technique=TECH)
CHECKS['C07'] = dict(
    text='Inductive one-step check (P1): from an arbitrary state satisfying the invariant (stack of listed shapes with symbolic contents, '
         'symbolic max_items / max_item_size / call count / call limit, 6 symbolic operand bytes) one instruction of each of the 92 opcodes '
         'and of NOP codes is executed from the real source; on every path (ok or raising) the invariant holds again, no deque drop event '
         'occurs, the pointer neither moves backwards nor leaves the tape, nested runs get count+1 <= limit, loops run at most limit '
         'bodies, and every stubbed allocation size is <= 255*max_item_size. Nested interpreter runs are summarised (P2).',
    design_ref='DESIGN.md section 4 C07',
    note='Trusted: SX engine (witness replay on paths without abstraction), z3, the P2 body summary, sound over-approximations of values '
         '(products/quotients, long digit strings, group operations and float arithmetic are replaced by unconstrained values of the right '
         'size because only shapes matter for the invariant). Finding F3 (OP_RANDOM) was repaired in /repo (fix: commit 2ab58ad).',
    technique=TECH)
CHECKS['C08'] = dict(
    text='One-step check (P1) of every opcode with a recording cache model: the write/delete log contains only byte-string keys (plus the '
         "interpreter's control flag cache['returned'], only from control instructions), every embedder-supplied string-keyed entry is the "
         'identical object afterwards on ok and raising paths, no new string key appears, and only the documented readers read string keys. '
         'Cache keys read from tape (length 0..10) and stack are symbolic, so keys spelling sigfield1 / timestamp are found by the solver.',
    design_ref='DESIGN.md section 4 C08',
    note='Trusted: SX engine, z3, the P2 body summary (a body writes only byte keys and the control flag: induction over nesting), the same '
         'value over-approximations as C07.',
    technique=TECH)
CHECKS['C20'] = dict(
    text='(i) one dispatch step of the real run_tape for a symbolic unassigned opcode (all 164) and symbolic count byte, stack depth 0..6: '
         'removes exactly count items or raises, pointer +2, nothing else changes; (ii) NOPn compiles to [n, count] and the decompiled listing '
         'recompiles to identical bytes for every code and every count byte; (iii) a fork op of the stated family installed through the real '
         'add_soft_fork at a symbolic free code is simulated step-for-step by the plain VM whenever it does not raise, and name, alias and NOPn '
         'spellings compile to identical bytes on both VMs.',
    design_ref='DESIGN.md section 4 C20',
    note='Trusted: SX engine (witness replay), z3, the definition of the soft-fork op family, the step-to-script induction argument. Finding '
         'F6c (NOP count >= 128 did not round-trip) was repaired in /repo (fix: commit 03d2a97).',
    technique=TECH)
CHECKS['C01'] = dict(
    text='(1) hand-off lemma: the real run_auth_scripts / run_script are executed with each script run replaced by a summary (arbitrary bounded '
         'stack effect, cache writes, RETURN, raise, call budget, definitions; symbolic stack and call limits; lists of 1..3 scripts, 4 thorough; '
         "initial cache values with and without a 'returned' entry): never raises, verdict true iff no run raised and the stack is exactly "
         '[0xff], and every script is handed a clean state (no return flag, pointer 0, shared stack / cache / definitions / budget). '
         '(2) return-flag invariant for one step of every opcode (flag set => tape terminated). (3) end-to-end with real nested execution: '
         '13 witness programs with RETURN at every placement x 7 lock templates and locks of 1..2 (thorough 3) arbitrary bytes, verdict '
         'compared with the channel oracle (run_script + run_tape composed by hand).',
    design_ref='DESIGN.md section 4 C01',
    note='Trusted: SX engine (witness replay on the end-to-end runs), z3, the P2 summary and the induction argument that combines (1) and (2). '
         'Findings F1 and F2 were repaired in /repo (fix: commits 1bec7ec, b42311e).',
    technique=TECH)
CHECKS['C09'] = dict(
    text='Per construct (IF, IF_ELSE, TRY/EXCEPT, LOOP, DEF+CALL, EVAL) one step with the nested run summarised: for every flag 0..10 an '
         'arbitrary boolean, arbitrary thresholds, disallow_OP_EVAL present/absent and eval_return arbitrary, the flags computed by the real '
         "set_tape_flags for the body, its plugins and its contracts equal the parent's and the parent's flags are unchanged (induction over "
         'nesting). Signature-related instructions call the signature-extension plugin exactly once. OP_SET_FLAG / OP_UNSET_FLAG with a symbolic '
         'operand of 0..3 bytes change exactly the named integer flag. End-to-end: 170 nestings up to depth 2 (thorough: plus depth 3) around '
         'flag / plugin / contract probes with real nested execution.',
    design_ref='DESIGN.md section 4 C09',
    note='Trusted: SX engine, z3, the P2 summary. Findings F4a/b/c were repaired in /repo (fix: commits 7cf885b, 79abb62, 5f96ea0).',
    technique=TECH)
CHECKS['C12'] = dict(
    text='decompile_script is executed symbolically (a) on every byte string of length 1..2 (3 thorough; plus all 3-byte strings starting with '
         'OP_PUSH2 in quick) under a monitor on Tape.read: it returns or raises, never reads with a negative size, and compile(listing) is a '
         'fixpoint of one more decompile/compile round; (b) for every opcode with exact-size symbolic operands (size fields on both sides of '
         '2^7, 2^8, 2^15, 2^16; block bodies from a fixed set) embedded between two other instructions: the listing names the instruction '
         'and recompiles, through the real compile_script on the placeholder text, to the identical bytes.',
    design_ref='DESIGN.md section 4 C12',
    note='Trusted: SX engine incl. the placeholder-string model (every path is validated by a concrete witness replay of decompile), z3. Termination '
         'for arbitrary longer strings rests on the per-instruction progress shown in (b). Findings F6b and F6c were repaired in /repo '
         '(fix: commits 3859cc9, 03d2a97).',
    technique=TECH)
CHECKS['C11'] = dict(
    text='compile_script runs on real source text whose operand payloads are symbolic: (A) every instruction x operand kind (d with symbolic '
         'integers incl. the rejection boundary, x with symbolic bytes of length 0..300 and 65535/65536, s with symbolic ASCII) against a '
         'reference encoding written from the documentation, inside "true <stmt> false" so swallowed or duplicated neighbours show, PUSH must '
         'select the smallest push; (B) 150+ abstract block programs (IF / ELSE / hoisted IF / TRY / EXCEPT / DEF / LOOP, depth <= 2, thorough 3) '
         'in brace and END_ style with statements after every construct against a reference block assembler; (C) every key of the alias and '
         'opcode tables in upper / lower / mixed case compiles like the canonical name; (D) variables, macros, comptime; (E) concatenation.',
    design_ref='DESIGN.md section 4 C11',
    note='Trusted: SX engine incl. the placeholder-string model (witness replay of compile_script on every second path), z3, the reference '
         'encodings in checks/c11.py. Structure and spellings are enumerated (finite), operands are solver variables. Finding F6a was repaired '
         'in /repo (fix: commit a940d21).',
    technique=TECH)
CHECKS['C19'] = dict(
    text='The registry functions run from the real source in a private package instance (module-level registries snapshotted and restored '
         'per path). One operation from every ordered registry pre-state of 0..4 entries, and every call history up to the stated length over '
         '{add, remove, reset} x 3 plugins x 2 scopes and over the contract / interface / alias alphabets, each position a solver-chosen symbol '
         'explored exhaustively; contents equal a set-semantics reference, a following run_script calls exactly the active plugins / reaches '
         'exactly the active contracts, aliases compile iff active. Independence: for 100 ordered pairs of sources, f(B) in a never-used '
         'instance equals f(B) after f(A) for compile_script, assemble, parse_comptime, run_script, run_auth_scripts. Caller dictionaries have '
         'an empty write log.',
    design_ref='DESIGN.md section 4 C19',
    note='Trusted: SX engine, z3 (history symbols are integers decided by the solver; the payload of this property is mostly control, so most '
         'obligations are decided concretely on each path). Counterexamples are replayed on the real package (fresh interpreter processes for '
         'independence). Findings F9 and F10 were repaired in /repo (fix: commits 92b97ff, 5ad6cf4).',
    technique=TECH)
CHECKS['C13'] = dict(
    text='(ii) completeness: make_single_sig_lock/2 + witness/2, graftroot key and surrogate paths, script-hash lock + witness are executed '
         'end to end (f-string template, compiler incl. comptime blocks, run_auth_scripts) with symbolic seed, sigfields (every presence '
         'subset of three fields) and scripts, for pairs of sign flag / allowed operand: True iff the flag is permitted, committed or surrogate '
         'script evaluated exactly once and the verdict is its verdict. (iii) exactness: each lock is run from an arbitrary witness-produced '
         'state (stacks of 0..3 symbolic items of the relevant lengths); the verdict equals a reference predicate over the signature oracle '
         '(key, flag-selected message, first 64 bytes, permitted flag, committed hash), and only the committed / correctly signed script is '
         'ever handed to the evaluator.',
    design_ref='DESIGN.md section 4 C13',
    note='Trusted: SX engine incl. placeholder strings, z3, signature oracle and hash stubs (collision freedom only for the "different '
         'script" clauses), C01 (a witness acts only through the state it leaves). Counterexamples are realised with real Ed25519 / SHAKE and '
         'replayed on the real package. Graftap / taproot builders are under C05, multisig execution under C03.',
    technique=TECH)
CHECKS['C14'] = dict(
    text='Certificate pack / unpack round trip on symbolic key, begin / end in [0, 2^31), may-delegate and signature. The single-certificate lock and '
         'the recursive chain lock are built by the real builders (symbolic root key) and run from an arbitrary witness state - symbolic '
         'signature, 105-byte certificates (also 104 / 106 / other lengths), delegation markers - with unbounded symbolic t and now; the verdict '
         'equals a reference fold over the links (each certificate signed by the previous key under the signature oracle, begin <= t < end with '
         'slack, non-final links delegable, final delegate signs the flag-selected sigfields), chains of 1..2 (thorough 3). Builder-made '
         'certificate chains of 1..3 (thorough 5) with symbolic seeds and windows unlock exactly when t is inside every window and within slack.',
    design_ref='DESIGN.md section 4 C14',
    note='Trusted: SX engine incl. placeholder strings (witness replay on the builder runs), z3 (window boundaries are linear integer '
         'arithmetic: decided, not sampled), signature oracle, clock stub. Counterexamples are realised with real keys and signatures.',
    technique=TECH)
CHECKS['C15'] = dict(
    text='Each of the four HTLC locks (both layouts, SHA-256 and SHAKE-256) and the PTLC lock is built by the real builder with symbolic keys, '
         'digest, timeout and build-time clock, and run from an arbitrary witness state (symbolic signature, preimage / key / selector of several '
         'lengths) with symbolic t and run-time clock: the verdict equals the reference predicate "digest matches and receiver signed, or digest '
         'differs and t >= build time + timeout within slack and refund key signed" (for the second layout: and the supplied key is the committed '
         'one). Builder witnesses (claim and refund, five lock kinds, symbolic seeds) succeed exactly when their path condition holds; the '
         'deadline arithmetic is linear integer arithmetic, decided for all values.',
    design_ref='DESIGN.md section 4 C15',
    note='Trusted: SX engine incl. placeholder strings (witness replay on builder runs), z3, hash stubs with collision freedom, signature oracle, '
         'two-phase clock stub. OP_EQUAL is modelled with byte-xor as an uninterpreted function plus the lemma xor(a,b)=0 <=> a=b. The tweaked-PTLC '
         'signature identity (sign_with_scalar on x+t) belongs to the group-algebra checks of C17.',
    technique=TECH)
CHECKS['C17'] = dict(
    text='The four adapter instructions, clamp_scalar, H_small, sign_with_scalar and the adapter builders run from the real source over the '
         'generic-group model (points as discrete logs mod L, one uninterpreted function for scalar multiplication, SHA-512 uninterpreted) with '
         'symbolic 32-byte seed and tweak and a symbolic message: the adapter made for T = t*G passes the check, an altered sa fails it, '
         'decryption yields (R+T, sa+t) which satisfies the RFC 8032 verification equation under the signer key (also through the real '
         'OP_CHECK_SIG), t = s - sa mod L, the PRIVATE variant behaves like the PUBLIC one, the adapter witness / lock builders agree on the byte '
         'layout and accept each other, and the tweaked PTLC witness unlocks the tweaked lock (the C15 clause). Each identity is an unsat query '
         'over 256-bit integers.',
    design_ref='DESIGN.md section 4 C17',
    note='Trusted: SX engine, z3, the generic-group idealisation (nothing about libsodium encodings, small-order points, cofactor), the '
         'assumption that no intermediate scalar / point is neutral. If the solver answers unknown for an obligation the check replays random '
         'candidate inputs on the real libsodium-backed code: a failing candidate is reported as a violation, otherwise the run is inconclusive '
         '(exit 2), never a pass. The negative clauses (adapter itself / wrong scalar not valid; altered R, T, message, key) are outside the '
         'claim. Finding F8 was repaired in /repo (fix: commit d6af232).',
    technique=TECH)
CHECKS['C18'] = dict(
    text='AMHL.setup / setup_for / check_setup / verify_lock_key / release / scalar_sum run from the real source over the generic-group model for a '
         'symbolic 32-byte seed (every sample is an uninterpreted-hash scalar) and chains of 2..4 parties (thorough 6): hop i tweak point = '
         '(y_0+...+y_i)*G, every view validates, the final key opens the last lock, release applied right to left yields at each hop the scalar '
         'whose point is that hop\'s lock and finally y_0; under the genericity assumption a key of another hop opens no other lock. setup_amhl / '
         'make_adapter_witness / decrypt_adapter / release_left_amhl_lock for a 2-party chain: lock points are the partial-sum points, the adapter '
         'witness satisfies the hop\'s adapter lock, the final key\'s point is the last hop\'s tweak point, and release_left_amhl_lock reads sa and s '
         'at the byte offsets where the instructions put them (its arithmetic is scalar_sub followed by AMHL.release, covered by the cascade).',
    design_ref='DESIGN.md section 4 C18',
    note='Trusted: SX engine, z3, generic-group idealisation, canonical merging of congruent values mod L inside the model (sx/algebra.py modL). '
         'The clause "the decrypted adapter is a signature satisfying the hop\'s lock" is composed from C17 (decrypting with a scalar whose point is '
         'the tweak point gives a valid signature) and the identity proved here (the released scalar\'s point is the tweak point). Unknown solver '
         'answers fall back to candidate replay on real libsodium, never to a pass.',
    technique=TECH)
CHECKS['C05'] = dict(
    text='(a) the 32 bytes pushed by make_taproot_lock (symbolic valid internal key P, symbolic script S) are, in the generic-group model, the '
         'point with discrete log dlog(P) + clamp(sha256(P || sha256(S))) computed independently at integer level; the lock from the commitment '
         'is byte-identical. (b) OP_TAPROOT, reached through that lock, from an arbitrary witness state (stacks of 0..3 symbolic items of lengths '
         '1,2,3,32,63,64,65): on the script path exactly the supplied script is handed to the evaluator and only if (script, key) recomputes to '
         'the root, the committed pair is never rejected, a rejected pair yields false without evaluation; on the key path the verdict is the '
         'oracle verdict under the root with the flag rules. (c) builder key-spend (sign_with_scalar on x + t, verified by the RFC 8032 equation '
         'in the model) and script-spend witnesses unlock their lock. (d) native and non-native lock give the same verdict and evaluate the same '
         'scripts on every witness state.',
    design_ref='DESIGN.md section 4 C05',
    note='Trusted: SX engine incl. placeholder strings, z3, generic-group idealisation with canonical merging of congruent values mod L, SHA-256 '
         'uninterpreted, signature oracle on the key path, the summary of the evaluated script. Unknown solver answers fall back to candidate '
         'replay on real libsodium, never to a pass. The graftap builders ride on the same identities (taproot lock + graftroot script of C13).',
    technique=TECH)
CHECKS['C04'] = dict(
    text='(a) one OP_MERKLEVAL from an arbitrary state (symbolic root operand, supplied script, sibling item of several lengths, items below, call '
         'budget): the supplied script is handed to the evaluator iff sha256(sha256(script)) xor sha256(sibling) equals the root, exactly once, '
         'with both proof items already consumed; otherwise an error is raised and no evaluation starts (a matching proof is refused only for '
         'lack of call budget). (b) For every binary tree shape (2..4 leaves quick, 2..6 thorough) built with the real ScriptLeaf / ScriptNode '
         'classes and for the outputs of the prioritized and balanced builders (1..6 / 1..12 leaves), for every leaf: the generated unlocking '
         'script followed by the locking script, run by the real run_auth_scripts, evaluates exactly that leaf once, on an empty stack, '
         'evaluates besides it only one node locking script per level, and the verdict equals the (symbolic) leaf verdict. (c) unpack(pack(tree)) '
         'preserves root, locking script, every leaf script and every unlocking script, and re-packs to the same bytes.',
    design_ref='DESIGN.md section 4 C04',
    note='Trusted: SX engine incl. placeholder strings (the unlocking / locking scripts go through the real compiler) and the struct model, z3, '
         'SHA-256 uninterpreted (equal inputs, equal digests), byte xor in the comparison as an uninterpreted function with the zero lemma, the '
         'summary of the leaf evaluation. Leaf scripts are 2 symbolic bytes, pairwise different. That no uncommitted (script, sibling) pair hashes '
         'to the root is the cryptographic assumption of the construction and outside the claim.',
    technique=TECH)
CHECKS['C06'] = dict(
    text='A reference semantics written in the check from docs.md / language_spec.md (operand orders as pinned by the unit tests) is evaluated on the '
         'same symbolic pre-state as the real instruction. (a) 43 stack / tape / cache / integer / bitwise / hash instructions, one step each from '
         'stacks of 0..4 symbolic items and symbolic tape operands: error exactly when documented, items consumed and produced, their values '
         '(integers as unbounded z3 Ints with the minimal-encoding check; division / modulus with the divisor pinned per job), operands consumed, '
         'byte-keyed cache effect, rest of the stack untouched. (b) float add / subtract / divide / compare in z3 FloatingPoint (binary64 arithmetic, '
         'binary32 result) for <= 2 operands. (c) IF / IF_ELSE / TRY_EXCEPT / LOOP / DEF / CALL / EVAL with summarised bodies: which body bytes run, '
         'on which stack, error propagation, transparency of IF / TRY / EXCEPT to RETURN, RETURN inside LOOP / CALL / EVAL ends only that construct '
         'with no residue, EVAL gets copies of definitions and flags. (d) dispatch: every opcode byte runs exactly the instruction docs.md numbers.',
    design_ref='DESIGN.md section 4 C06',
    note='Trusted: SX engine (witness replay of every fifth path against the real package; counterexamples are re-run pinned and compared with the '
         'real package), z3 incl. its FloatingPoint theory, the reference written in checks/c06.py, hash / log2 / token_bytes stubs, P2 summaries. '
         'Not covered here and decided by other checks against their own references: signature, adapter, point / scalar, timestamp / epoch, flag, '
         'MERKLEVAL / TAPROOT, CHECK_TRANSFER / CHECK_TEMPLATE instructions; float modulus and the values of INT_TO_FLOAT / FLOAT_TO_INT are outside '
         'the claim (z3 does not decide them within reach).',
    technique=TECH)
NOT_APPLICABLE = {}
NOTES = ('Exit codes of every check: 0 held on everything explored; 1 + VIOLATION line for a counterexample that was '
         'replayed on the real package and is not a listed known finding; 2 harness error / unsupported construct / '
         'solver unknown / bound exceeded / non-reproducing counterexample (never reported as a pass).')
