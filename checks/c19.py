"""C19 — extension registries behave as sets; runs do not leak state into later runs."""
from __future__ import annotations
from typing import Protocol, runtime_checkable
import z3
from sx.harness import HarnessSpec
from sx.core import SymInt, SymBool, mk_bool, zi, to_z3bool, sym_and, sym_or, sym_not, eng
from sx.values import SymBytes, mk_bytes, items_of, bytes_eq
from sx.containers import SDict
from sx import stubs
from .common import outcome_of, exc_name

FUNCTIONS = ['functions:add_plugin', 'functions:remove_plugin', 'functions:reset_plugins', 'functions:add_signature_extension',
             'functions:remove_signature_extension', 'functions:reset_signature_extensions', 'functions:add_contract',
             'functions:remove_contract', 'functions:add_contract_interface', 'functions:remove_contract_interface',
             'functions:_check_contract', 'functions:add_alias', 'functions:run_plugins', 'functions:run_script',
             'functions:run_auth_scripts', 'parsing:compile_script', 'parsing:assemble', 'parsing:parse_comptime',
             'parsing:define_macro', 'parsing:invoke_macro']
BOUNDS = {'quick': {'histories': 'all call sequences of length <= 3 over {add, remove, reset} x 3 plugins x 2 scopes (each position a solver-chosen '
                    'symbol), length 4 for one scope; contracts / interfaces / aliases: all sequences of length <= 4 over their alphabets',
                    'registry_pre_states': 'lists of 0..4 distinct entries for the one-operation lemma'},
          'thorough': {'histories': 'length <= 5 for plugins (two scopes), <= 6 for one scope, <= 5 for the other registries (12 operations per position)',
                       'registry_pre_states': '0..4 entries'}}
OUTSIDE = ['histories longer than the bound (the one-operation lemma from an arbitrary registry state covers every length for plugins)',
           'random longer histories of the property text: sampling is not this technique']
ASSUMPTIONS = ['plugins are plain functions, bound methods (a new, equal object on every access) or value-equal callables; contracts / interfaces are opaque distinct objects; an entry is "used" if the stub records a call during run_script']
EXPLANATION = ('the registry functions run from the real source inside a private package instance whose module-level registries are '
               'snapshotted and restored per path; every history position is a symbolic choice explored exhaustively; contents are compared '
               'with a set-semantics reference; a following run_script must call exactly the active plugins / reach exactly the active '
               'contracts; compile / assemble / parse_comptime / run_script / run_auth_scripts results must not depend on an earlier call')
MUST_REACH = ['history_done', 'onestep_reset', 'independence_done', 'caller_dicts_done']

SCOPES = ['signature_extensions', 'check_template']


class _Holder:
    """an object whose bound method is the plugin: `h.call` is a new method object on every access, equal (==) to the
    previous ones but not identical"""

    def __init__(self, log, i):
        self.log, self.i = log, i

    def call(self, tape, stack, cache):
        self.log.append(self.i)
        return True


class _EqPlugin:
    """callable plugin whose equality is by value, not identity"""

    def __init__(self, log, i):
        self.log, self.i = log, i

    def __call__(self, tape, stack, cache):
        self.log.append(self.i)
        return True

    def __eq__(self, o):
        return isinstance(o, _EqPlugin) and o.i == self.i

    def __hash__(self):
        return hash(('eqplugin', self.i))


class _Plugs:
    """plugs[i] is what a caller passes to add / remove for plugin i; for the kinds "method" and "eq_object" every access
    yields a fresh object equal to the earlier ones, as `obj.method` does in ordinary code"""

    def __init__(self, log, kind, n):
        self.log, self.kind, self.n = log, kind, n
        if kind == 'function':
            self.fns = []
            for i in range(n):
                def p(tape, stack, cache, i=i):
                    log.append(i)
                    return True
                p.__name__ = f'plugin{i}'
                self.fns.append(p)
        elif kind == 'method':
            self.holders = [_Holder(log, i) for i in range(n)]

    def __getitem__(self, i):
        if isinstance(i, slice):
            return _Plugs(self.log, self.kind, len(range(self.n)[i]))
        if self.kind == 'function':
            return self.fns[i]
        if self.kind == 'method':
            return self.holders[i].call
        return _EqPlugin(self.log, i)

    def index(self, p):
        for i in range(self.n):
            if self[i] == p:
                return i
        raise ValueError('unknown plugin object')


def _mk_plugins(log, kind='function'):
    return _Plugs(log, kind, 4)


def _choose(c, name, n, pin=None):
    v = c.int(name, 0, n - 1)
    if pin is not None:                  # job splitting only: this job covers the histories that start with this choice
        c.assume(v == pin)
    if getattr(c, 'concrete', False):
        return v
    return eng().concretize(v.t, limit=64)


# ------------------------------------------------------------------------------ (i) one operation from any state
def h_onestep(c, pkg, n_pre, kind='function'):
    F = pkg.functions
    log = []
    plugs = _mk_plugins(log, kind)
    scope = SCOPES[0]
    # arbitrary pre-state: an ordered list of n_pre distinct plugins (order chosen by the solver)
    order = []
    avail = list(range(4))
    for k in range(n_pre):
        i = _choose(c, f'pre{k}', len(avail))
        order.append(avail.pop(i))
    F._plugins[scope] = [plugs[i] for i in order]
    ref = list(order)
    op = _choose(c, 'op', 3)
    if op == 0:
        i = _choose(c, 'arg', 4)
        F.add_plugin(scope, plugs[i])
        if i not in ref:
            ref.append(i)
    elif op == 1:
        i = _choose(c, 'arg', 4)
        F.remove_plugin(scope, plugs[i])
        if i in ref:
            ref.remove(i)
    else:
        F.reset_plugins(scope)
        ref = []
        c.reach('onestep_reset')
    got = [plugs.index(p) for p in F._plugins[scope]]
    c.check('registry_content_is_set_semantics', sorted(got) == sorted(ref) and len(set(got)) == len(got),
            op=('add', 'remove', 'reset')[op], pre=order, got=got, want=ref)
    c.input('pre_order', order)
    c.input('opname', ('add', 'remove', 'reset')[op])


def r_onestep(inputs, params, obligation):
    import tapescript.functions as RF
    log = []
    plugs = _mk_plugins(log, params.get('kind', 'function'))
    scope = 'verif_scope'
    order = inputs['pre_order']
    RF._plugins[scope] = [plugs[i] for i in order]
    ref = list(order)
    try:
        op = inputs['opname']
        if op == 'add':
            RF.add_plugin(scope, plugs[inputs['arg']])
            if inputs['arg'] not in ref:
                ref.append(inputs['arg'])
        elif op == 'remove':
            RF.remove_plugin(scope, plugs[inputs['arg']])
            if inputs['arg'] in ref:
                ref.remove(inputs['arg'])
        else:
            RF.reset_plugins(scope)
            ref = []
        got = [plugs.index(p) for p in RF._plugins[scope]]
    finally:
        RF._plugins.pop(scope, None)
    return {'reproduced': sorted(got) != sorted(ref), 'pre': order, 'op': op, 'got': got, 'want': ref}


# ------------------------------------------------------------------------------ (ii)+(iii) histories
def h_history_plugins(c, pkg, length, nscopes, kind='function', first=None):
    F, P = pkg.functions, pkg.parsing
    log = []
    plugs = _mk_plugins(log, kind)[:3]
    ref = {s: [] for s in SCOPES[:nscopes]}
    hist = []
    for k in range(length):
        pin = first if (first is not None and k == 0) else (None, None)
        s = SCOPES[_choose(c, f'scope{k}', nscopes, pin[0])] if nscopes > 1 else SCOPES[0]
        op = _choose(c, f'op{k}', 3, pin[1])
        if op == 2:
            F.reset_plugins(s)
            ref[s] = []
            hist.append(('reset', s))
            continue
        i = _choose(c, f'arg{k}', 3)
        if op == 0:
            F.add_plugin(s, plugs[i])
            if i not in ref[s]:
                ref[s].append(i)
        else:
            F.remove_plugin(s, plugs[i])
            if i in ref[s]:
                ref[s].remove(i)
        hist.append((('add', 'remove')[op], s, i))
    c.input('history', [list(h) for h in hist])
    for s in ref:
        got = [plugs.index(p) for p in F._plugins.get(s, [])]
        c.check('active_entries_are_added_minus_removed', sorted(got) == sorted(ref[s]) and len(set(got)) == len(got),
                scope=s, got=got, want=ref[s])
    # used iff active: a signature instruction calls exactly the active signature extensions, once each
    del log[:]
    r = outcome_of(F.run_script, P.compile_script('msg x00'), SDict({'sigfield1': b'a'}))
    c.check('run_after_history_succeeds', r[0] == 'ok', got=repr(r)[:200])
    c.check('used_iff_active', sorted(log) == sorted(ref[SCOPES[0]]), called=list(log), active=ref[SCOPES[0]])
    c.reach('history_done')


def r_history_plugins(inputs, params, obligation):
    import tapescript
    import tapescript.functions as RF
    log = []
    plugs = _mk_plugins(log, params.get('kind', 'function'))[:3]
    saved = {k: list(v) for k, v in RF._plugins.items()}
    ref = {s: [] for s in SCOPES}
    try:
        for s in SCOPES:
            RF._plugins[s] = []
        for h in inputs['history']:
            if h[0] == 'reset':
                RF.reset_plugins(h[1])
                ref[h[1]] = []
            elif h[0] == 'add':
                RF.add_plugin(h[1], plugs[h[2]])
                if h[2] not in ref[h[1]]:
                    ref[h[1]].append(h[2])
            else:
                RF.remove_plugin(h[1], plugs[h[2]])
                if h[2] in ref[h[1]]:
                    ref[h[1]].remove(h[2])
        got = {s: [plugs.index(p) for p in RF._plugins[s]] for s in SCOPES}
        del log[:]
        tapescript.run_script(tapescript.compile_script('msg x00'), {'sigfield1': b'a'})
        used = sorted(log)
    finally:
        RF._plugins.clear()
        RF._plugins.update(saved)
    bad = any(sorted(got[s]) != sorted(ref[s]) for s in SCOPES) or used != sorted(ref[SCOPES[0]])
    return {'reproduced': bad, 'history': inputs['history'], 'got': got, 'want': ref, 'used': used}


@runtime_checkable
class IfaceA(Protocol):
    def alpha(self) -> int:
        ...


@runtime_checkable
class IfaceB(Protocol):
    def beta(self) -> int:
        ...


class ConA:
    def __init__(self, log, tag='A'):
        self.log = log
        self.tag = tag

    def alpha(self):
        return 1

    def abi(self, args):
        self.log.append(self.tag)
        return None


class ConB:
    def __init__(self, log):
        self.log = log

    def beta(self):
        return 2

    def abi(self, args):
        self.log.append('B')
        return None


def h_history_contracts(c, pkg, length, first=None):
    """contracts, contract interfaces and aliases: each position one of 12 operations"""
    F, P = pkg.functions, pkg.parsing
    log = []
    cons = {b'A': ConA(log), b'B': ConB(log)}
    conA2 = ConA(log, 'A2')              # a different contract object registered under the id of A (re-adding replaces)
    ifaces = {'IfaceA': IfaceA, 'IfaceB': IfaceB}
    ref_c, ref_i, ref_a = {}, set(), {}
    base_ifaces = set(F._contract_interfaces)
    hist = []
    for k in range(length):
        op = _choose(c, f'op{k}', 12, first if k == 0 else None)
        if op == 10:
            r = outcome_of(F.add_contract, b'A', conA2)
            if r[0] == 'ok':
                ref_c[b'A'] = conA2
            hist.append(('add_contract', 'A2', r[0]))
            c.check('add_contract_accepts_contract_matching_an_interface', r[0] == 'ok', got=repr(r)[:120])
        elif op < 2:
            cid = (b'A', b'B')[op]
            r = outcome_of(F.add_contract, cid, cons[cid])
            # a contract is accepted iff it fulfils at least one registered interface (CanBeInvoked is built in: abi)
            if r[0] == 'ok':
                ref_c[cid] = cons[cid]
            hist.append(('add_contract', cid.decode(), r[0]))
            c.check('add_contract_accepts_contract_matching_an_interface', r[0] == 'ok', got=repr(r)[:120])
        elif op < 4:
            cid = (b'A', b'B')[op - 2]
            F.remove_contract(cid)
            ref_c.pop(cid, None)
            hist.append(('remove_contract', cid.decode()))
        elif op < 6:
            name = ('IfaceA', 'IfaceB')[op - 4]
            F.add_contract_interface(ifaces[name])
            ref_i.add(name)
            hist.append(('add_interface', name))
        elif op < 8:
            name = ('IfaceA', 'IfaceB')[op - 6]
            F.remove_contract_interface(ifaces[name])
            ref_i.discard(name)
            hist.append(('remove_interface', name))
        else:
            # (aliases are case-insensitive: a lower-case spelling names the same alias, also when it asks for another op)
            spelt, target = (('ZZA', 'OP_TRUE'), ('zzb', 'OP_FALSE'), ('zza', 'OP_FALSE'))[op - 8 if op < 10 else 2]
            alias = spelt.upper()
            r = outcome_of(F.add_alias, spelt, target)
            if alias in ref_a:
                c.check('alias_already_in_use_is_rejected', r[0] == 'raise' and exc_name(r[1]) == 'ValueError')
            else:
                c.check('new_alias_accepted', r[0] == 'ok', got=repr(r)[:120])
                ref_a[alias] = target
            hist.append(('add_alias', alias))
    c.input('history', [list(h) for h in hist])
    c.check('contracts_are_added_minus_removed', set(F._contracts.keys()) == set(ref_c.keys()) and
            all(F._contracts[k] is v for k, v in ref_c.items()), got=sorted(F._contracts.keys()), want=sorted(ref_c))
    c.check('interfaces_are_added_minus_removed', set(F._contract_interfaces) == base_ifaces | ref_i,
            got=sorted(F._contract_interfaces), want=sorted(base_ifaces | ref_i))
    for alias in ('ZZA', 'ZZB'):
        c.check('alias_active_iff_added', (alias in F.opcode_aliases) == (alias in ref_a))
        r = outcome_of(P.compile_script, alias.lower())
        if alias in ref_a:
            want = bytes([F.opcodes_inverse[ref_a[alias]][0]])
            c.check('active_alias_compiles_to_its_op', r[0] == 'ok' and r[1] == want, got=repr(r)[:100])
        else:
            c.check('inactive_alias_is_rejected', r[0] == 'raise')
    # used iff active: INVOKE reaches exactly the registered contracts
    for cid in (b'A', b'B'):
        del log[:]
        r = outcome_of(F.run_script, P.compile_script(f'push d0 push x{cid.hex()} invoke'))
        if cid in ref_c:
            c.check('active_contract_is_reachable', r[0] == 'ok' and log == [getattr(ref_c[cid], 'tag', cid.decode())], got=repr(r)[:120],
                    log=list(log))
        else:
            c.check('inactive_contract_is_not_reachable', r[0] == 'raise' and not log, got=repr(r)[:120])
        # ... and the same from the second script of an authorization run (witness, lock)
        del log[:]
        r = outcome_of(F.run_auth_scripts, [P.compile_script('true pop0'), P.compile_script(f'push d0 push x{cid.hex()} invoke true')])
        if cid in ref_c:
            c.check('active_contract_is_reachable_from_a_later_script', r[0] == 'ok' and r[1] is True and
                    log == [getattr(ref_c[cid], 'tag', cid.decode())], got=repr(r)[:120], log=list(log))
        else:
            c.check('inactive_contract_is_not_reachable_from_a_later_script', r[0] == 'ok' and r[1] is False and not log, got=repr(r)[:120])
    c.reach('history_done')


# ------------------------------------------------------------------------------ (iv) independence, (v) caller dicts
SOURCES = ['true', '!= m [ ] { true } !m [ ]', '!m [ ]', '!= m [ a ] { push a } !m [ x07 ]', '!m [ x09 ]', '@= v [ x01 ] @v',
           'push ~ { !m [ ] }', 'def 0 { true } call d0', 'true return', 'push x01 pop0 @P']


def r_history_contracts(inputs, params, obligation):
    """the harness function itself on the real package (its module-level registries are saved and restored around the run)"""
    from sx.harness import ConcreteCtx, real_package
    from sx import loader
    rp = real_package()
    saved = {}
    for m, n in loader._REGISTRIES:
        d = getattr(getattr(rp, m), n)
        saved[(m, n)] = {k: (list(v) if isinstance(v, list) else v) for k, v in d.items()}
    c = ConcreteCtx(inputs)
    try:
        h_history_contracts(c, rp, **params)
    finally:
        for (m, n), content in saved.items():
            d = getattr(getattr(rp, m), n)
            d.clear()
            for k, v in content.items():
                d[k] = list(v) if isinstance(v, list) else v
    return {'reproduced': obligation in c.failed, 'failed': c.failed, 'history': c.inputs.get('history')}


def _call(p, name, src):
    F, P = p.functions, p.parsing
    if name == 'compile_script':
        return outcome_of(P.compile_script, src)
    if name == 'assemble':
        return outcome_of(lambda: P.assemble(P.get_symbols(src)))
    if name == 'parse_comptime':
        return outcome_of(lambda: P.parse_comptime(P.get_symbols(src)))
    r = outcome_of(lambda: P.compile_script(src))
    if r[0] != 'ok':
        return r
    if name == 'run_script':
        r = outcome_of(F.run_script, r[1])
        if r[0] != 'ok':
            return r
        return ('ok', (list(r[1][1].deque.items), sorted((repr(k), repr(v)) for k, v in r[1][2].items()
                                                          if not isinstance(k, str))))
    return outcome_of(F.run_auth_scripts, [r[1]])


def h_independence(c, pkg, i, j):
    """f(B) in a package instance that has never been used vs. f(B) after f(A) in another fresh instance"""
    from sx import loader
    A, B = SOURCES[i], SOURCES[j]

    def norm(r):
        return (r[0], exc_name(r[1])) if r[0] == 'raise' else (r[0], r[1])
    for name in ('compile_script', 'assemble', 'parse_comptime', 'run_script', 'run_auth_scripts'):
        p1 = loader.load()
        alone = norm(_call(p1, name, B))
        loader.unload(p1)
        p2 = loader.load()
        _call(p2, name, A)
        after = norm(_call(p2, name, B))
        loader.unload(p2)
        c.check('result_does_not_depend_on_an_earlier_call', alone == after, function=name, first=A, second=B,
                alone=repr(alone)[:120], after=repr(after)[:120])
    c.reach('independence_done')


def r_independence(inputs, params, obligation):
    """concrete: B alone in a fresh interpreter process vs. after A in another fresh process"""
    import os
    import subprocess
    import sys
    A, B = SOURCES[params['i']], SOURCES[params['j']]
    prog = r'''
import sys, tapescript
from tapescript.parsing import assemble, get_symbols, parse_comptime
A, B, with_a = sys.argv[1], sys.argv[2], sys.argv[3] == '1'
def f(name, src):
    try:
        if name == 'compile_script': return ('ok', tapescript.compile_script(src).hex())
        if name == 'assemble': return ('ok', assemble(get_symbols(src)).hex())
        if name == 'parse_comptime': return ('ok', repr(parse_comptime(get_symbols(src))))
        if name == 'run_script':
            t, s, c = tapescript.run_script(tapescript.compile_script(src)); return ('ok', repr(s.list()))
        return ('ok', repr(tapescript.run_auth_scripts([tapescript.compile_script(src)])))
    except BaseException as e:
        return ('raise', type(e).__name__)
out = []
for name in ('compile_script', 'assemble', 'parse_comptime', 'run_script', 'run_auth_scripts'):
    if with_a: f(name, A)
    out.append((name, f(name, B)))
print(repr(out))
'''
    res = []
    for flag in ('0', '1'):
        env = dict(os.environ)
        if env.get('VERIF_REPO'):
            env['PYTHONPATH'] = env['VERIF_REPO']
        p = subprocess.run([sys.executable, '-c', prog, A, B, flag], capture_output=True, text=True, timeout=60, env=env)
        res.append(p.stdout.strip())
    return {'reproduced': res[0] != res[1], 'first': A, 'second': B, 'alone': res[0][:400], 'after': res[1][:400]}


def h_caller_dicts(c, pkg):
    F, P = pkg.functions, pkg.parsing
    code = P.compile_script('push x01 pop0 true return')
    cache_vals = SDict({'sigfield1': b'a'})
    contracts = SDict({b'C': ConA([])})
    plugins = SDict({'signature_extensions': []})
    flags = SDict({1: False})
    for d in (cache_vals, contracts, plugins, flags):
        d.wlog = []
    r = outcome_of(F.run_script, code, cache_vals, contracts, flags, plugins)
    c.check('run_script_ok', r[0] == 'ok', got=repr(r)[:200])
    r = outcome_of(F.run_auth_scripts, [code, P.compile_script('pop0 true')], cache_vals, contracts, plugins)
    c.check('run_auth_scripts_ok', r[0] == 'ok', got=repr(r)[:200])
    for name, d in (('cache_vals', cache_vals), ('contracts', contracts), ('plugins', plugins), ('additional_flags', flags)):
        c.check('caller_dictionary_never_modified', len(d.wlog) == 0, which=name, log=repr(d.wlog)[:200])
    c.check('plugin_list_not_modified', plugins['signature_extensions'] == [])
    c.reach('caller_dicts_done')


def _p_hist(tier):
    # plugin objects whose equality is not identity (bound methods, value-equal callables): shorter histories
    if tier == 'quick':
        return [{'length': n, 'nscopes': 2} for n in (1, 2, 3)] + [{'length': 4, 'nscopes': 1}] + \
            [{'length': n, 'nscopes': 1, 'kind': k} for n in (2, 3) for k in ('method', 'eq_object')]
    # (the longest histories are split by their first operation, one job each)
    return [{'length': n, 'nscopes': 2} for n in (1, 2, 3, 4)] + \
        [{'length': 5, 'nscopes': 2, 'first': [sc, op]} for sc in (0, 1) for op in (0, 1, 2)] + \
        [{'length': 6, 'nscopes': 1, 'first': [None, op]} for op in (0, 1, 2)] + \
        [{'length': n, 'nscopes': ns, 'kind': k} for n, ns in ((2, 2), (3, 2), (4, 1), (5, 1)) for k in ('method', 'eq_object')]


def _p_contracts(tier):
    out = [{'length': n} for n in (1, 2, 3)] + [{'length': 4, 'first': f} for f in range(12)]
    if tier != 'quick':
        out += [{'length': 5, 'first': f} for f in range(12)]
    return out


def _p_indep(tier):
    return [{'i': i, 'j': j} for i in range(len(SOURCES)) for j in range(len(SOURCES))]


def _sig(v):
    sig = {'harness': v['harness'], 'obligation': v['obligation']}
    info = v.get('info') or {}
    if 'function' in info:
        sig['function'] = info['function']
    if v['harness'] == 'onestep':
        sig['op'] = (v.get('inputs') or {}).get('opname')
    return sig


HARNESSES = [
    HarnessSpec('onestep', h_onestep, [{'n_pre': n} for n in range(5)] + [{'n_pre': n, 'kind': k} for n in (1, 2, 3) for k in ('method', 'eq_object')],
                witness_replay=True, witness_every=3, replay=r_onestep, fresh_pkg=True, signature=_sig),
    HarnessSpec('history_plugins', h_history_plugins, _p_hist, witness_replay=True, witness_every=40, replay=r_history_plugins, fresh_pkg=True, signature=_sig),
    HarnessSpec('history_contracts', h_history_contracts, _p_contracts,
                fresh_pkg=True, signature=_sig, replay=r_history_contracts, witness_replay=True, witness_every=200),
    HarnessSpec('independence', h_independence, _p_indep, replay=r_independence, fresh_pkg=True, signature=_sig),
    HarnessSpec('caller_dicts', h_caller_dicts, fresh_pkg=True),
]
