"""C12 — decompiling always terminates and round-trips compiler output."""
from __future__ import annotations
import signal
import z3
from sx.harness import HarnessSpec
from sx.core import SymInt, SymBool, mk_bool, zi, to_z3bool, sym_and, sym_or, sym_not, eng, SxError
from sx.values import SymBytes, mk_bytes, items_of, bytes_eq, from_bytes_model
from sx.containers import SDict
from sx import stubs
from . import vmstep
from .common import outcome_of, exc_name

FUNCTIONS = ['parsing:decompile_script', 'parsing:compile_script', 'parsing:get_symbols', 'parsing:assemble', 'parsing:parse_next',
             'parsing:get_args', 'parsing:_get_OP_PUSH_args', 'parsing:_get_OP_PUSH0_type_args', 'parsing:_get_OP_PUSH1_type_args',
             'parsing:_get_OP_PUSH2_args', 'parsing:_get_OP_WRITE_CACHE_args', 'parsing:_get_OP_DIV_FLOAT_args',
             'parsing:_get_OP_SWAP_type_args', 'parsing:_get_OP_CHECK_MULTISIG_args', 'parsing:_get_OP_MERKLEVAL_args',
             'parsing:parse_if', 'parsing:parse_else', 'parsing:parse_try', 'parsing:parse_except', 'parsing:parse_def',
             'parsing:parse_loop', 'classes:Tape.read', 'classes:Tape.move_pointer', 'classes:Tape.has_terminated',
             'functions:bytes_to_int', 'functions:int_to_bytes', 'tools:Script.from_bytes']
BOUNDS = {'quick': {'arbitrary_byte_strings': 'all strings of length 1..2 (symbolic) for termination / no backward read / fixpoint',
                    'per_instruction_round_trip': 'every opcode with symbolic operands; size fields 0,1,2,127,128,255 (PUSH1), 0,1,255,256,300 '
                    '(PUSH2, symbolic payload) and 32767, 32768, 65535 (PUSH2, concrete payload); block bodies from a fixed set of 9 listings'},
          'thorough': {'arbitrary_byte_strings': 'all strings of length 1..3', 'per_instruction_round_trip': 'as quick plus nested blocks'}}
OUTSIDE = ['byte strings longer than 3 bytes for the exhaustive termination claim (per-instruction progress is shown for every opcode with exact-size '
           'operands; the loop is a concatenation of such steps)', 'block bodies outside the fixed set (the body is decompiled by the same function: '
           'induction on length)', 'non-minimal operand encodings that no compiler output contains (OP_DIV_INT with a padded integer)']
ASSUMPTIONS = ['symbolic operands are rendered into the listing as placeholder characters; compile_script then runs on the real text '
               '(see sx/strings.py); every path is validated by a concrete witness replay',
               'a violation of "never reads backwards" is detected by a monitor on Tape.read (size < 0) installed in the instrumented package']
EXPLANATION = ('decompile_script runs symbolically (a) on every byte string of length <= 2 (3 thorough): it returns or raises, Tape.read is '
               'never called with a negative size, and for the bytes b2 = compile(listing) one more round trip is the identity; (b) per opcode '
               'with exact-size symbolic operands: the listing recompiles to the identical bytes')
MUST_REACH = ['arb_listing', 'arb_error', 'rt_ok', 'hdr_listing', 'hdr_error']


class BackwardRead(SxError):
    pass


def install_monitor(pkg, c):
    """Tape.read monitor: the property says the decompiler never reads backwards"""
    Tape = pkg.classes.Tape
    if not hasattr(Tape, '_sx_orig_read'):
        Tape._sx_orig_read = Tape.read
    orig = Tape._sx_orig_read
    state = {'neg': False}

    def read(self, size, move_pointer=True):
        if isinstance(size, (SymInt, SymBool)):
            if bool(size < 0):
                state['neg'] = True
                c.check('never_reads_backwards', False, size=size, pointer=self.pointer)
                raise BackwardRead('negative read size')
        elif size < 0:
            state['neg'] = True
            c.check('never_reads_backwards', False, size=size, pointer=self.pointer)
            raise BackwardRead('negative read size')
        return orig(self, size, move_pointer)
    Tape.read = read
    return state


def uninstall_monitor(pkg):
    Tape = pkg.classes.Tape
    if hasattr(Tape, '_sx_orig_read'):
        Tape.read = Tape._sx_orig_read


def _decompile(c, pkg, data):
    st = install_monitor(pkg, c)
    try:
        try:
            r = outcome_of(pkg.parsing.decompile_script, data)
        except BackwardRead:
            return ('backward', None)
    finally:
        uninstall_monitor(pkg)
    return r


# ------------------------------------------------------------------------------ (a) arbitrary byte strings
def h_arbitrary(c, pkg, n, split=None):
    P = pkg.parsing
    stubs.CONFIG.log2_max_bits = 72
    data = c.bytes('data', n)
    if split is not None:
        i, k = split
        c.assume(sym_and(data[0] >= (256 * i) // k, data[0] < (256 * (i + 1)) // k))
    r = _decompile(c, pkg, data)
    if r[0] == 'backward':
        return
    if r[0] == 'raise':
        c.check('error_is_an_ordinary_exception', isinstance(r[1], (Exception, pkg.errors.ScriptExecutionError,
                                                                 pkg.errors.SyntaxError)), got=repr(r[1]))
        c.reach('arb_error')
        c.observe(ok=False)
        return
    lines = r[1]
    c.reach('arb_listing')
    src = '\n'.join(lines)
    c.input('listing', src)
    r2 = outcome_of(P.compile_script, src)
    if r2[0] == 'raise':
        # not every byte string is compiler output; a listing that does not compile must at least not be
        # produced from bytes the compiler itself emits, which is what the fixpoint below covers
        c.reach('arb_listing_not_compilable')
        c.observe(ok=True, listing=src)
        return
    b2 = r2[1]
    r3 = _decompile(c, pkg, b2)
    c.check('compiler_output_decompiles', r3[0] == 'ok', got=repr(r3)[:200])
    if r3[0] == 'ok':
        r4 = outcome_of(P.compile_script, '\n'.join(r3[1]))
        c.check('compiler_output_round_trips', r4[0] == 'ok' and len(r4[1]) == len(b2) and bytes_eq(r4[1], b2),
                got=repr(r4)[:200], b2=b2)
    c.observe(ok=True, listing=src)


# ------------------------------------------------------------------------------ (a') size fields of every instruction
EDGE = (0x00, 0x01, 0x02, 0x7f, 0x80, 0xfb, 0xff)


def h_header(c, pkg, op, n):
    """opcode `op` followed by n bytes drawn from EDGE (lengths 0/1/2, sign-bit and all-ones values, the one-byte
    instructions FALSE / TRUE / PUSH0 and NOP codes): every size field of the instruction, including the second one of
    two-block instructions, takes boundary values on both sides of 2^7 / 2^15 / 2^16"""
    stubs.CONFIG.log2_max_bits = 72
    code = _op(pkg, op) if isinstance(op, str) else op
    rest = c.bytes('rest', n)
    for x in items_of(rest):
        c.assume(mk_bool(z3.Or(*[zi(x) == v for v in EDGE])))
    data = bytes([code]) + rest
    c.input('data', data)
    r = _decompile(c, pkg, data)
    if r[0] == 'backward':
        return
    if r[0] == 'raise':
        c.check('error_is_an_ordinary_exception', isinstance(r[1], (Exception, pkg.errors.ScriptExecutionError,
                                                                 pkg.errors.SyntaxError)), got=repr(r[1]))
        c.reach('hdr_error')
    else:
        c.reach('hdr_listing')


class _Timeout(Exception):
    pass


def _with_watchdog(fn, seconds=3):
    def handler(signum, frame):
        raise _Timeout()
    old = signal.signal(signal.SIGALRM, handler)
    signal.alarm(seconds)
    try:
        return outcome_of(fn)
    except _Timeout:
        return ('hang', None)
    finally:
        signal.alarm(0)
        signal.signal(signal.SIGALRM, old)


def c_arbitrary(inputs, params):
    import tapescript
    r = _with_watchdog(lambda: tapescript.decompile_script(inputs['data']))
    if r[0] != 'ok':
        return {'ok': False}
    return {'ok': True, 'listing': '\n'.join(r[1])}


def r_arbitrary(inputs, params, obligation):
    import tapescript
    data = inputs['data']
    r = _with_watchdog(lambda: tapescript.decompile_script(data))
    if r[0] == 'hang':
        return {'reproduced': True, 'why': 'decompile_script does not return (watchdog)', 'data': data.hex()}
    if obligation == 'never_reads_backwards':
        # observe negative read sizes on the real Tape
        import tapescript.classes as RC
        neg = []
        orig = RC.Tape.read

        def read(self, size, move_pointer=True):
            if size < 0:
                neg.append(size)
                raise RuntimeError('negative read')
            return orig(self, size, move_pointer)
        RC.Tape.read = read
        try:
            _with_watchdog(lambda: tapescript.decompile_script(data))
        finally:
            RC.Tape.read = orig
        return {'reproduced': bool(neg), 'negative_sizes': neg[:3], 'data': data.hex()}
    if r[0] != 'ok':
        return {'reproduced': False, 'r': repr(r)[:200]}
    r2 = outcome_of(tapescript.compile_script, '\n'.join(r[1]))
    if r2[0] != 'ok':
        return {'reproduced': False, 'note': 'listing of non-compiler bytes does not compile', 'r2': repr(r2)[:200]}
    b2 = r2[1]
    r3 = _with_watchdog(lambda: tapescript.compile_script('\n'.join(tapescript.decompile_script(b2))))
    return {'reproduced': not (r3[0] == 'ok' and r3[1] == b2), 'b2': b2.hex(), 'r3': repr(r3)[:200]}


# ------------------------------------------------------------------------------ (b) per-instruction round trip
NOARG = ['OP_FALSE', 'OP_TRUE', 'OP_POP0', 'OP_SIZE', 'OP_READ_CACHE_STACK', 'OP_READ_CACHE_STACK_SIZE', 'OP_DIV_INTS', 'OP_MOD_INTS',
         'OP_DIV_FLOATS', 'OP_MOD_FLOATS', 'OP_DUP', 'OP_SHA256', 'OP_VERIFY', 'OP_EQUAL', 'OP_EQUAL_VERIFY', 'OP_CHECK_TIMESTAMP',
         'OP_CHECK_TIMESTAMP_VERIFY', 'OP_CHECK_EPOCH', 'OP_CHECK_EPOCH_VERIFY', 'OP_EVAL', 'OP_RANDOM', 'OP_NOT', 'OP_RETURN', 'OP_DEPTH',
         'OP_SWAP2', 'OP_CONCAT', 'OP_CONCAT_STR', 'OP_CHECK_TRANSFER', 'OP_LESS', 'OP_LESS_OR_EQUAL', 'OP_FLOAT_LESS',
         'OP_FLOAT_LESS_OR_EQUAL', 'OP_INT_TO_FLOAT', 'OP_FLOAT_TO_INT', 'OP_SIGN_STACK', 'OP_CHECK_SIG_STACK', 'OP_DERIVE_SCALAR',
         'OP_DERIVE_POINT', 'OP_MAKE_ADAPTER_SIG_PUBLIC', 'OP_MAKE_ADAPTER_SIG_PRIVATE', 'OP_CHECK_ADAPTER_SIG',
         'OP_DECRYPT_ADAPTER_SIG', 'OP_XOR', 'OP_INVOKE', 'OP_OR', 'OP_AND', 'OP_SPLIT', 'OP_SPLIT_STR']
ONEBYTE = ['OP_PUSH0', 'OP_POP1', 'OP_ADD_INTS', 'OP_SUBTRACT_INTS', 'OP_MULT_INTS', 'OP_ADD_FLOATS', 'OP_SUBTRACT_FLOATS',
           'OP_ADD_POINTS', 'OP_CALL', 'OP_COPY', 'OP_SHAKE256', 'OP_REVERSE', 'OP_CLAMP_SCALAR', 'OP_ADD_SCALARS',
           'OP_SUBTRACT_SCALARS', 'OP_SUBTRACT_POINTS', 'OP_CHECK_SIG', 'OP_CHECK_SIG_VERIFY', 'OP_SIGN', 'OP_TAPROOT',
           'OP_GET_MESSAGE', 'OP_CHECK_TEMPLATE', 'OP_CHECK_TEMPLATE_VERIFY']
SIZED = ['OP_READ_CACHE', 'OP_READ_CACHE_SIZE', 'OP_SET_FLAG', 'OP_UNSET_FLAG', 'OP_GET_VALUE']
BODIES = ['', 'true', 'push x07', 'push d300 pop0', 'true if { false }', 'try { true } except { false }', 'loop { pop0 false }',
          'true if { true } else { false }', 'write_cache x6b d1 read_cache x6b']


def _op(pkg, name):
    return pkg.functions.opcodes_inverse[name][0]


def _xb(b):
    """'BIG:<n>' stands for a body that pushes n zero bytes (block lengths on both sides of 2^15 / up to 2^16 - 1)"""
    if isinstance(b, str) and b.startswith('BIG:'):
        return 'push x' + '00' * int(b[4:])
    return b


def build(c, pkg, kind, op, size=None, body=None, body2=None):
    """bytes of one instruction with exact-size operands"""
    P = pkg.parsing
    body, body2 = _xb(body), _xb(body2)
    code = bytes([_op(pkg, op)])
    if kind == 'noarg':
        return code
    if kind == 'onebyte':
        return code + c.bytes('b', 1)
    if kind == 'push1' or kind == 'sized':
        return code + bytes([size]) + c.bytes('payload', size)
    if kind == 'divint':
        val = c.bytes('val', size)
        if size:
            enc = pkg.functions.int_to_bytes(pkg.functions.bytes_to_int(val))
            c.assume(len(enc) == size and bytes_eq(enc, val))      # minimal encoding (what the compiler emits)
        return code + bytes([size]) + val
    if kind == 'write_cache':
        return code + bytes([size]) + c.bytes('key', size) + c.bytes('count', 1)
    if kind == 'push2':
        payload = c.bytes('payload', size) if size <= 300 else bytes(size)
        return code + size.to_bytes(2, 'big') + payload
    if kind == 'fixed':
        return code + c.bytes('operand', size)
    if kind in ('if', 'loop'):
        b = P.compile_script(body)
        return code + len(b).to_bytes(2, 'big') + b
    if kind in ('if_else', 'try'):
        b1, b2 = P.compile_script(body), P.compile_script(body2)
        return code + len(b1).to_bytes(2, 'big') + b1 + len(b2).to_bytes(2, 'big') + b2
    if kind == 'def':
        b = P.compile_script(body)
        return code + c.bytes('handle', 1) + len(b).to_bytes(2, 'big') + b
    raise ValueError(kind)


def h_roundtrip(c, pkg, kind, op, size=None, body=None, body2=None):
    P = pkg.parsing
    stubs.CONFIG.log2_max_bits = 72
    data = build(c, pkg, kind, op, size, body, body2)
    pre = b'\x01' if kind not in ('noarg',) else b''
    data = pre + data + b'\x00'          # an instruction before and after: nothing may be swallowed or re-read
    r = _decompile(c, pkg, data)
    if r[0] == 'backward':
        return
    if r[0] == 'raise':
        # only the documented rejections: an empty integer operand
        ok = kind == 'divint' and size == 0
        c.check('decompile_accepts_compiler_output', ok, got=repr(r[1])[:200], op=op)
        c.reach('rt_rejected')
        c.observe(ok=False)
        return
    lines = r[1]
    src = '\n'.join(lines)
    c.input('listing', src)
    c.check('listing_names_the_instruction', any(l.strip().split()[0] in (op, 'OP_IF', '}') for l in lines), op=op)
    r2 = outcome_of(P.compile_script, src)
    c.check('listing_recompiles', r2[0] == 'ok', got=repr(r2)[:300], listing=src, op=op)
    if r2[0] == 'ok':
        c.check('round_trip_identical', len(r2[1]) == len(data) and bytes_eq(r2[1], data), got=r2[1], want=data, op=op)
    c.reach('rt_ok')
    c.observe(ok=True, listing=src)


def _real_build(inputs, params):
    import tapescript
    import tapescript.functions as RF
    kind, op, size = params['kind'], params['op'], params.get('size')
    code = bytes([RF.opcodes_inverse[op][0]])
    cs = tapescript.compile_script
    if kind == 'noarg':
        d = code
    elif kind == 'onebyte':
        d = code + inputs['b']
    elif kind in ('push1', 'sized'):
        d = code + bytes([size]) + inputs.get('payload', b'')
    elif kind == 'divint':
        d = code + bytes([size]) + inputs.get('val', b'')
    elif kind == 'write_cache':
        d = code + bytes([size]) + inputs.get('key', b'') + inputs['count']
    elif kind == 'push2':
        d = code + size.to_bytes(2, 'big') + (inputs.get('payload', b'') if size <= 300 else bytes(size))
    elif kind == 'fixed':
        d = code + inputs['operand']
    elif kind in ('if', 'loop'):
        b = cs(_xb(params['body']))
        d = code + len(b).to_bytes(2, 'big') + b
    elif kind in ('if_else', 'try'):
        b1, b2 = cs(_xb(params['body'])), cs(_xb(params['body2']))
        d = code + len(b1).to_bytes(2, 'big') + b1 + len(b2).to_bytes(2, 'big') + b2
    else:
        b = cs(_xb(params['body']))
        d = code + inputs['handle'] + len(b).to_bytes(2, 'big') + b
    pre = b'\x01' if kind != 'noarg' else b''
    return pre + d + b'\x00'


def c_roundtrip(inputs, params):
    import tapescript
    data = _real_build(inputs, params)
    r = _with_watchdog(lambda: tapescript.decompile_script(data))
    if r[0] != 'ok':
        return {'ok': False}
    return {'ok': True, 'listing': '\n'.join(r[1])}


def r_roundtrip(inputs, params, obligation):
    import tapescript
    data = _real_build(inputs, params)
    r = _with_watchdog(lambda: tapescript.decompile_script(data))
    if r[0] == 'hang':
        return {'reproduced': True, 'why': 'hang', 'data': data.hex()}
    if r[0] != 'ok':
        ok = params['kind'] == 'divint' and params.get('size') == 0
        return {'reproduced': not ok, 'r': repr(r)[:200], 'data': data.hex()[:200]}
    r2 = outcome_of(tapescript.compile_script, '\n'.join(r[1]))
    return {'reproduced': not (r2[0] == 'ok' and r2[1] == data), 'data': data.hex()[:200], 'listing': '\n'.join(r[1])[:200],
            'recompiled': repr(r2)[:200]}


def _p_rt(tier):
    out = []
    for op in NOARG:
        out.append({'kind': 'noarg', 'op': op})
    for op in ONEBYTE:
        out.append({'kind': 'onebyte', 'op': op})
    for s in (0, 1, 2, 127, 128, 255):
        out.append({'kind': 'push1', 'op': 'OP_PUSH1', 'size': s})
    for op in SIZED:
        for s in (0, 1, 3, 200):
            out.append({'kind': 'sized', 'op': op, 'size': s})
    for op in ('OP_DIV_INT', 'OP_MOD_INT'):
        for s in (0, 1, 2, 3):
            out.append({'kind': 'divint', 'op': op, 'size': s})
    for s in (0, 1, 9, 255):
        out.append({'kind': 'write_cache', 'op': 'OP_WRITE_CACHE', 'size': s})
    for s in (0, 1, 255, 256, 300, 32767, 32768, 65535):
        out.append({'kind': 'push2', 'op': 'OP_PUSH2', 'size': s})
    for op, n in (('OP_DIV_FLOAT', 4), ('OP_MOD_FLOAT', 4), ('OP_SWAP', 2), ('OP_CHECK_MULTISIG', 3),
                  ('OP_CHECK_MULTISIG_VERIFY', 3), ('OP_MERKLEVAL', 32)):
        out.append({'kind': 'fixed', 'op': op, 'size': n})
    bodies = BODIES if tier != 'quick' else BODIES[:6]
    for b in bodies:
        out.append({'kind': 'if', 'op': 'OP_IF', 'body': b})
        out.append({'kind': 'loop', 'op': 'OP_LOOP', 'body': b})
        out.append({'kind': 'def', 'op': 'OP_DEF', 'body': b if 'def' not in b else 'true'})
    for b1 in bodies[:5]:
        for b2 in bodies[:4]:
            out.append({'kind': 'if_else', 'op': 'OP_IF_ELSE', 'body': b1, 'body2': b2})
            out.append({'kind': 'try', 'op': 'OP_TRY_EXCEPT', 'body': b1, 'body2': b2})
    # block lengths 32767, 32768 and 65535 in every length field (the body is PUSH2 + 2 length bytes + n zero bytes)
    for n in (32764, 32765, 65532):
        big = f'BIG:{n}'
        out.append({'kind': 'if', 'op': 'OP_IF', 'body': big})
        out.append({'kind': 'loop', 'op': 'OP_LOOP', 'body': big})
        out.append({'kind': 'def', 'op': 'OP_DEF', 'body': big})
        for kind, op in (('if_else', 'OP_IF_ELSE'), ('try', 'OP_TRY_EXCEPT')):
            out.append({'kind': kind, 'op': op, 'body': big, 'body2': 'true'})
            out.append({'kind': kind, 'op': op, 'body': 'true', 'body2': big})
    return out


def _p_arb(tier):
    out = [{'n': 1}] + [{'n': 2, 'split': [i, 16]} for i in range(16)] + [{'n': 3, 'split': [4, 256]}]
    if tier != 'quick':
        out += [{'n': 3, 'split': [i, 256]} for i in range(256)]
    return out


HEADER_OPS = ['OP_IF', 'OP_IF_ELSE', 'OP_TRY_EXCEPT', 'OP_DEF', 'OP_LOOP', 'OP_PUSH1', 'OP_PUSH2', 'OP_WRITE_CACHE', 'OP_READ_CACHE',
              'OP_READ_CACHE_SIZE', 'OP_SET_FLAG', 'OP_UNSET_FLAG', 'OP_GET_VALUE', 'OP_DIV_INT', 'OP_MOD_INT', 'OP_DIV_FLOAT',
              'OP_MOD_FLOAT', 'OP_MERKLEVAL', 'OP_SWAP', 'OP_CHECK_MULTISIG', 'OP_PUSH0']


def _p_hdr(tier):
    out = [{'op': op, 'n': (5 if tier == 'quick' else 6)} for op in HEADER_OPS]
    out += [{'op': code, 'n': 4} for code in (92, 128, 255)]
    if tier != 'quick':
        out += [{'op': op, 'n': 4} for op in NOARG + ONEBYTE if op not in HEADER_OPS]
    return out


def _sig(v):
    p = v['params']
    return {'harness': v['harness'], 'obligation': v['obligation'], 'op': p.get('op')}


HARNESSES = [
    HarnessSpec('arbitrary', h_arbitrary, _p_arb, replay=r_arbitrary, concrete=c_arbitrary, witness_every=7, signature=_sig),
    HarnessSpec('roundtrip', h_roundtrip, _p_rt, replay=r_roundtrip, concrete=c_roundtrip, signature=_sig),
    HarnessSpec('header', h_header, _p_hdr, replay=r_arbitrary, signature=_sig),
]
