"""One-instruction harness over the real op implementations (pattern P1) with the nested run_tape
replaced by a body-outcome summary (pattern P2).  Used by C06, C07, C08, C09, C20 and C01."""
from __future__ import annotations
import z3
from sx.core import eng, SymInt, SymBool, mk_bool, zi, to_z3bool, sym_and, sym_or, sym_not
from sx.values import SymBytes, mk_bytes, items_of, bytes_eq, fresh_bytes, fresh_bool
from sx.containers import SDict, SDeque
from sx import stubs
from .common import outcome_of, exc_name

N_OPS = 92


class Body:
    """what one nested run_tape invocation (the body of IF/ELSE/TRY/EXCEPT/LOOP/CALL/EVAL ...) was handed"""

    def __init__(self, k, tape, stack, cache, additional_flags):
        self.k = k
        self.tape = tape
        self.data = tape.data
        self.flags_obj = tape.flags
        self.additional_flags = additional_flags
        self.plugins = tape.plugins
        self.contracts = tape.contracts
        self.definitions = tape.definitions
        self.callstack_count = tape.callstack_count
        self.callstack_limit = tape.callstack_limit
        self.stack_depth_in = len(stack)
        self.cache_had_returned = 'returned' in cache
        self.effective_flags = None
        self.raised = None
        self.returned = None


class Summary:
    """P2 summary of the nested interpreter: arbitrary (bounded) effect on stack and byte-keyed cache, may
    execute a flag instruction (the real OP_SET_FLAG / OP_UNSET_FLAG on flag 1), may execute a RETURN (then
    cache['returned'] = True, tape pointer at the end), may raise.  The symbolic choices are inputs `body<k>.*`;
    the same object tells a reference model what the bodies did."""

    def __init__(self, pkg, pops=1, pushes=1, may_raise=True, may_return=True, writes_cache=True,
                 max_bodies=6, real_flags=True, flag_ops=False, parent=None):
        self.pkg = pkg
        self.pops, self.pushes = pops, pushes
        self.may_raise, self.may_return, self.writes_cache = may_raise, may_return, writes_cache
        self.max_bodies = max_bodies
        self.real_flags = real_flags
        self.flag_ops = flag_ops
        self.parent = parent
        self.bodies = []

    # the three things a concrete replay answers from the counterexample instead
    def _bool(self, name):
        return bool(fresh_bool(name))

    def _bytes(self, name, n):
        return fresh_bytes(name, n)

    def _newdict(self):
        return SDict()

    def _too_many(self):
        eng().fail(stubs.BoundExceeded, 'more nested bodies than the summary bound')

    def __call__(self, tape, stack, cache, additional_flags=None):
        k = len(self.bodies)
        if k >= self.max_bodies:
            self._too_many()
        if additional_flags is None:
            additional_flags = self._newdict()
        b = Body(k, tape, stack, cache, additional_flags)
        self.bodies.append(b)
        if self.parent is not None:
            pf = self.parent.flags
            b.parent_flags_at_entry = pf.copy() if hasattr(pf, 'copy') else dict(pf)
        if self.real_flags:
            # the real flag computation of run_tape (set_tape_flags) still runs
            self.pkg.functions.set_tape_flags(tape, additional_flags)
        b.effective_flags = tape.flags.copy() if hasattr(tape.flags, 'copy') else dict(tape.flags)
        # stack / cache effect: one of {nothing, pop one, push one (+ write a byte-keyed cache entry)}
        b.popped, b.pushed, b.wrote = [], [], None
        if self.pops and len(stack) and self._bool(f'body{k}.pops'):
            b.popped.append(stack.get())
        elif self.pushes and self._bool(f'body{k}.pushes'):
            it = self._bytes(f'body{k}.item', 1)
            stack.put(it)
            b.pushed.append(it)
            if self.writes_cache:
                key = self._bytes(f'body{k}.key', 1)
                cache[key] = [self._bytes(f'body{k}.val', 1)]
                b.wrote = key
        b.flag_op = None
        if self.flag_ops:
            # the body executes a real flag instruction on its own tape's flags
            F, C = self.pkg.functions, self.pkg.classes
            if self._bool(f'body{k}.set_flag1'):
                b.flag_op = 'OP_SET_FLAG'
            elif self._bool(f'body{k}.unset_flag1'):
                b.flag_op = 'OP_UNSET_FLAG'
            if b.flag_op:
                getattr(F, b.flag_op)(C.Tape(b'\x01\x01', flags=tape.flags), stack, cache)
        b.flags_at_exit = tape.flags.copy() if hasattr(tape.flags, 'copy') else dict(tape.flags)
        if self.may_raise and self._bool(f'body{k}.raises'):
            b.raised = True
            b.returned = False
            raise self.pkg.errors.ScriptExecutionError(f'body {k} failed')
        b.raised = False
        if self.may_return and self._bool(f'body{k}.returns'):
            b.returned = True
            tape.pointer = len(tape.data)
            cache['returned'] = True
        else:
            b.returned = False
            tape.pointer = len(tape.data)


class ConcreteSummary(Summary):
    """the P2 summary replayed on the real package: the body choices of a counterexample (inputs `body<k>.*`)
    are applied to the real Tape / Stack / cache objects the real instruction hands to run_tape"""

    def __init__(self, pkg, inputs, **kw):
        kw.setdefault('max_bodies', 64)
        super().__init__(pkg, **kw)
        self.inputs = inputs

    def _bool(self, name):
        return bool(self.inputs.get(name, False))

    def _bytes(self, name, n):
        v = self.inputs.get(name)
        v = bytes(v) if isinstance(v, (bytes, bytearray)) else b''
        return (v + b'\x00' * n)[:n]

    def _newdict(self):
        return {}

    def _too_many(self):
        raise RuntimeError('more nested bodies than the replay bound')


def make_summary(c, pkg, **kw):
    """the summary for the harness context: symbolic on a path, concrete in a replay"""
    return ConcreteSummary(pkg, c.inputs, **kw) if getattr(c, 'concrete', False) else Summary(pkg, **kw)


class Installed:
    """context manager: functions.run_tape := summary inside the instrumented package"""

    def __init__(self, pkg, summary):
        self.pkg, self.summary = pkg, summary

    def __enter__(self):
        self.old = self.pkg.functions.run_tape
        self.pkg.functions.run_tape = self.summary
        return self.summary

    def __exit__(self, *a):
        self.pkg.functions.run_tape = self.old
        return False


def default_flags(pkg):
    F = pkg.functions
    d = SDict()
    for k in F.flags:
        d[k] = F.flags[k] if k in F.flags_to_set else False
    d.wlog = []
    return d


class State:
    pass


def mk_state(c, pkg, stack_lens, tape_data, cache=None, flags=None, sym_limits=False, callstack=(0, 128),
             definitions=None, contracts=None, plugins=None):
    """pre-state: stack items (bottom first) of the given lengths with symbolic content"""
    C = pkg.classes
    st = State()
    if sym_limits:
        st.max_items = c.int('max_items', 1)
        st.max_item_size = c.int('max_item_size', 1)
        c.assume(st.max_items >= len(stack_lens))
        c.assume(st.max_items <= len(stack_lens) + 6)
        if stack_lens:
            c.assume(st.max_item_size >= max(stack_lens))
        c.assume(st.max_item_size <= 300)
        st.stack = C.Stack(max_items=st.max_items, max_item_size=st.max_item_size)
    else:
        st.max_items, st.max_item_size = 1024, 1024
        st.stack = C.Stack()
    st.items = [c.bytes(f's{i}', n) for i, n in enumerate(stack_lens)]
    for it in st.items:
        st.stack.deque.items.append(it)
    st.cache = cache if cache is not None else SDict()
    st.cache.wlog = []
    st.cache.rlog = []
    st.tape = C.Tape(tape_data, callstack_count=callstack[0], callstack_limit=callstack[1],
                     flags=flags if flags is not None else default_flags(pkg),
                     definitions=definitions if definitions is not None else SDict(),
                     contracts=contracts if contracts is not None else SDict(),
                     plugins=plugins if plugins is not None else SDict({'signature_extensions': [],
                                                                        'check_template': []}))
    st.pre_stack = list(st.items)
    return st


def run_op(pkg, name_or_code, st):
    """execute one instruction body (the opcode byte has been consumed by the caller or is not on the tape)"""
    F = pkg.functions
    if isinstance(name_or_code, str):
        fn = F.opcodes_inverse[name_or_code][1] if name_or_code in F.opcodes_inverse else F.NOP
    else:
        fn = F.opcodes[name_or_code][1] if name_or_code in F.opcodes else F.nopcodes[name_or_code][1]
    return outcome_of(fn, st.tape, st.stack, st.cache)


def stack_items(stack):
    return list(stack.deque.items)


# error classes that run_auth_scripts maps to False (everything: it catches BaseException) but that the
# property C07 distinguishes: a *limit* violation must be a ScriptExecutionError
def is_see(pkg, e):
    return isinstance(e, pkg.errors.ScriptExecutionError)


OPNAMES = None


def opnames(pkg):
    return [pkg.functions.opcodes[i][0] for i in range(N_OPS)]


# ops whose body calls run_tape (directly or through other ops)
NESTING_OPS = {'OP_CALL', 'OP_IF', 'OP_IF_ELSE', 'OP_EVAL', 'OP_MERKLEVAL', 'OP_TRY_EXCEPT', 'OP_LOOP', 'OP_TAPROOT'}
# ops that need the group-algebra stubs
ALGEBRA_OPS = {'OP_ADD_POINTS', 'OP_SUBTRACT_POINTS', 'OP_ADD_SCALARS', 'OP_SUBTRACT_SCALARS', 'OP_DERIVE_SCALAR',
               'OP_DERIVE_POINT', 'OP_MAKE_ADAPTER_SIG_PUBLIC', 'OP_MAKE_ADAPTER_SIG_PRIVATE',
               'OP_CHECK_ADAPTER_SIG', 'OP_DECRYPT_ADAPTER_SIG', 'OP_TAPROOT', 'OP_CLAMP_SCALAR'}
FLOAT_OPS = {'OP_ADD_FLOATS', 'OP_SUBTRACT_FLOATS', 'OP_DIV_FLOAT', 'OP_DIV_FLOATS', 'OP_MOD_FLOAT', 'OP_MOD_FLOATS',
             'OP_FLOAT_LESS', 'OP_FLOAT_LESS_OR_EQUAL', 'OP_INT_TO_FLOAT', 'OP_FLOAT_TO_INT'}


# ------------------------------------------------------------------------------ generic one-step jobs
SHAPES_QUICK = [(), (1,), (4,), (1, 1), (4, 4), (32, 32), (1, 1, 1), (32, 32, 32), (64, 32), (32, 32, 2, 32, 32)]
SHAPES_THOROUGH = SHAPES_QUICK + [(0,), (2,), (32,), (2, 1), (1, 32), (65, 32), (4, 4, 4), (2, 32, 32), (32, 2, 32),
                                  (1, 1, 1, 1), (1, 1, 1, 1, 1, 1), (0, 0), (3, 4), (33, 32), (32, 32, 32, 32, 32, 32)]
STR_OPS = {'OP_CONCAT_STR', 'OP_SPLIT_STR', 'OP_GET_VALUE'}
INT_OPS = {'OP_ADD_INTS', 'OP_SUBTRACT_INTS', 'OP_MULT_INTS', 'OP_DIV_INT', 'OP_DIV_INTS', 'OP_MOD_INT', 'OP_MOD_INTS',
           'OP_LESS', 'OP_LESS_OR_EQUAL', 'OP_INT_TO_FLOAT'}


class StubContract:
    """implements CanCheckTransfer and CanBeInvoked with symbolic answers"""

    def __init__(self, c):
        self.c = c
        self.calls = []

    def _b(self, name):
        v = self.c.bool(f'contract.{name}{len(self.calls)}')
        self.calls.append(name)
        return v

    def verify_txn_proof(self, proof):
        return self._b('proof')

    def verify_transfer(self, proof, source, destination):
        return self._b('transfer')

    def verify_txn_constraint(self, proof, constraint):
        return self._b('constraint')

    def calc_txn_aggregates(self, proofs, scope=None):
        self.calls.append('agg')
        return self.c.dict({scope: self.c.int('contract.aggregate')})

    def abi(self, args):
        self.calls.append('abi')
        if bool(self.c.bool('contract.abi_none')):
            return None
        return [self.c.bytes('contract.abi_ret', 1)]


BLOB = b'\x05\x06'


MUTABLE_FIELDS = {'sigfield1': b'\x11', 'sigfield2': b'\x22\x33'}


def generic_cache(c, mutable_fields=False):
    d = SDict()
    if mutable_fields:
        # the embedder handed over its sigfields as mutable buffers: no instruction may alter them in place
        for k, v in MUTABLE_FIELDS.items():
            d[k] = c.e.inputs[k] = bytearray(v)
    else:
        d['sigfield1'] = c.bytes('sigfield1', 1)
        d['sigfield2'] = c.bytes('sigfield2', 2)
    d['timestamp'] = c.int('timestamp', 0, 2 ** 64)
    d['custom'] = 'text'
    d['blob'] = bytearray(BLOB)              # an embedder-owned *mutable* value: must never be aliased or altered
    d[b'k'] = [c.bytes('cache_k', 1)]
    d[c.bytes('cache_key', 1)] = [c.bytes('cache_v0', 1), c.bytes('cache_v1', 2)]
    d.wlog = []
    d.rlog = []
    return d


def generic_step(c, pkg, op, lens, sym_limits=True, ntape=6, callstack_sym=True, abstract=True, copy_bound=None, tape0=None, ascii_only=True, mutable_fields=False):
    """one instruction `op` (name, or int for a NOP code) from a symbolic pre-state; returns (state, outcome,
    summary).  Nested run_tape calls go to the P2 summary."""
    F = pkg.functions
    name = op if isinstance(op, str) else f'NOP{op}'
    from sx import core as _core
    for _k in ('nonlinear', 'digits', 'algebra', 'floats') if abstract else ():   # sound over-approximations of values (only shapes matter)
        _core.ABSTRACT[_k] = True
    tape_data = c.bytes('tape', ntape)
    if tape0 is not None:
        c.assume(mk_bool(zi(tape_data[0]) == tape0))
    if copy_bound is not None and name == 'OP_COPY' and ntape:
        c.assume(mk_bool(zi(tape_data[0]) <= copy_bound))
    if name in ALGEBRA_OPS or name == 'OP_TAPROOT':
        stubs.CONFIG.sig_mode = 'oracle'
    if callstack_sym:
        top = 2 if name == 'OP_LOOP' else 3
        cnt = c.int('callstack_count', 0, top)
        lim = c.int('callstack_limit', 1, top)
        c.assume(cnt <= lim)
        cs = (cnt, lim)
    else:
        cs = (0, 128)
    contract = StubContract(c)
    contracts = SDict({b'C': contract})
    def_tape = pkg.classes.Tape(b'\x00')
    if name == 'OP_CALL':
        # the called definition may itself be in the middle of a run (recursion): arbitrary position
        def_tape.pointer = c.int('def_pointer', 0, 1)
    defs = SDict({b'\x00': def_tape})
    st = mk_state(c, pkg, lens, tape_data, cache=generic_cache(c, mutable_fields), sym_limits=sym_limits, callstack=cs,
                  contracts=contracts, definitions=defs)
    st.contract = contract
    st.def_tape = def_tape
    st.def_pointer = def_tape.pointer
    if name in STR_OPS and ascii_only:
        for it in st.items:
            for x in items_of(it):
                if not isinstance(x, int):
                    c.assume(mk_bool(x < 0x80))
        for x in items_of(tape_data):
            c.assume(mk_bool(x < 0x80))
    st.pre_pointer = st.tape.pointer
    st.pre_count = st.tape.callstack_count
    st.cache0 = [(k, (list(v) if isinstance(v, list) else v)) for k, v in st.cache.entries]
    summ = Summary(pkg)
    with Installed(pkg, summ):
        r = run_op(pkg, op, st)
    return st, r, summ


def all_ops(pkg):
    return opnames(pkg)


def generic_params(tier, pkg_ops=None, nops=(92, 93, 127, 128, 200, 255)):
    shapes = SHAPES_QUICK if tier == 'quick' else SHAPES_THOROUGH
    import tapescript.functions as RF          # names only (table of the real package)
    names = [RF.opcodes[i][0] for i in range(len(RF.opcodes)) if RF.opcodes[i][0].startswith('OP_')][:N_OPS]
    out = []
    for n in names:
        for sh in shapes:
            if n in INT_OPS and sh and max(sh) > 4:
                continue        # integer arithmetic on long operands: covered by C10; here only magnitudes matter
            out.append({'op': n, 'lens': list(sh)})
    for code in nops:
        for sh in shapes[:6]:
            out.append({'op': code, 'lens': list(sh)})
    return out


# ------------------------------------------------------------------------------ concrete counterpart
class RecDict(dict):
    """recording dict for concrete replays: logs every write / delete with the key"""

    def __init__(self, *a, **kw):
        super().__init__(*a, **kw)
        self.wlog = []

    def __setitem__(self, k, v):
        self.wlog.append(('set', type(k).__name__, k))
        super().__setitem__(k, v)

    def __delitem__(self, k):
        self.wlog.append(('del', type(k).__name__, k))
        super().__delitem__(k)

    def pop(self, k, *a):
        self.wlog.append(('del', type(k).__name__, k))
        return super().pop(k, *a)

    def update(self, *a, **kw):
        for k in dict(*a, **kw):
            self.wlog.append(('set', type(k).__name__, k))
        super().update(*a, **kw)

    def setdefault(self, k, d=None):
        if k not in self:
            self.wlog.append(('set', type(k).__name__, k))
        return super().setdefault(k, d)

    def clear(self):
        for k in list(self):
            self.wlog.append(('del', type(k).__name__, k))
        super().clear()


class RecDeque:
    pass


def _mk_recdeque():
    from collections import deque

    class _RecDeque(deque):
        """deque(maxlen) that records every silent drop (an add while full)"""
        drops = 0

        def _note(self, k=1):
            if self.maxlen is not None and len(self) + k > self.maxlen:
                type(self).drops += len(self) + k - self.maxlen

        def append(self, x):
            self._note()
            super().append(x)

        def appendleft(self, x):
            self._note()
            super().appendleft(x)

        def extend(self, it):
            it = list(it)
            self._note(len(it))
            super().extend(it)

        def extendleft(self, it):
            it = list(it)
            self._note(len(it))
            super().extendleft(it)
    _RecDeque.drops = 0
    return _RecDeque


def concrete_generic_step(inputs, params):
    """the generic step on the real package; nested runs go to the concrete replay of the summary"""
    import tapescript
    import tapescript.functions as RF
    from collections import deque
    op = params['op']
    lens = params['lens']
    mi = inputs.get('max_items', 1024)
    ms = inputs.get('max_item_size', 1024)
    stack = tapescript.Stack(max_items=mi, max_item_size=ms)
    RD = _mk_recdeque()
    stack.deque = RD(maxlen=mi)
    for i in range(len(lens)):
        deque.append(stack.deque, inputs.get(f's{i}', b''))
    tape = tapescript.Tape(inputs['tape'], callstack_count=inputs.get('callstack_count', 0),
                           callstack_limit=inputs.get('callstack_limit', 128))
    RF.set_tape_flags(tape)
    def_tape = tapescript.Tape(b'\x00')
    def_tape.pointer = inputs.get('def_pointer', 0)
    tape.definitions = {b'\x00': def_tape}
    allocs = []
    old_tb = RF.token_bytes

    def rec_tb(n):
        allocs.append(n)
        if n > 1 << 20:
            raise MemoryError('recorded instead of allocated')
        return old_tb(n)
    cache = RecDict()
    if params.get('mutable'):
        for k, v in MUTABLE_FIELDS.items():
            dict.__setitem__(cache, k, bytearray(v))
    else:
        dict.__setitem__(cache, 'sigfield1', inputs.get('sigfield1', b''))
        dict.__setitem__(cache, 'sigfield2', inputs.get('sigfield2', b''))
    dict.__setitem__(cache, 'timestamp', inputs.get('timestamp', 0))
    dict.__setitem__(cache, 'custom', 'text')
    dict.__setitem__(cache, 'blob', bytearray(BLOB))
    dict.__setitem__(cache, b'k', [inputs.get('cache_k', b'')])
    dict.__setitem__(cache, inputs.get('cache_key', b'z'), [inputs.get('cache_v0', b''), inputs.get('cache_v1', b'')])
    pre = {k: v for k, v in cache.items() if isinstance(k, str)}
    RF.token_bytes = rec_tb
    from sx.harness import real_package
    summ = ConcreteSummary(real_package(), inputs)
    old_rt = RF.run_tape
    RF.run_tape = summ
    pre_count = tape.callstack_count
    pre_flags = dict(tape.flags)
    try:
        fn = RF.opcodes_inverse[op][1] if isinstance(op, str) else RF.NOP
        r = outcome_of(fn, tape, stack, cache)
    finally:
        RF.token_bytes = old_tb
        RF.run_tape = old_rt
    return dict(r=r, stack=stack, tape=tape, cache=cache, pre_str=pre, allocs=allocs, max_items=mi, max_item_size=ms,
                summ=summ, pre_count=pre_count, pre_flags=pre_flags, def_tape=def_tape, drops=RD.drops,
                def_pointer=inputs.get('def_pointer', 0))


def witness_observables(c, op, st, r, summ):
    """observables compared with the real package on a concrete witness; only for paths on which no value
    abstraction, environment stub, contract or nested-run summary was involved"""
    rc = c.e.run_cache
    name = op if isinstance(op, str) else 'NOP'
    if rc.get('abstracted') or rc.get('stubbed') or summ.bodies or st.contract.calls or name in NESTING_OPS:
        return
    if stubs.CONFIG.hash_log or stubs.CONFIG.now is not None or stubs.CONFIG.log2_apps:
        return
    items = stack_items(st.stack)
    c.observe(raised=(r[0] == 'raise'), exc=(exc_name(r[1]) if r[0] == 'raise' else None), depth=len(items),
              pointer=st.tape.pointer, stack=items)


def concrete_observables(inputs, params):
    res = concrete_generic_step(inputs, params)
    r = res['r']
    return {'raised': r[0] == 'raise', 'exc': (type(r[1]).__name__ if r[0] == 'raise' else None),
            'depth': len(res['stack'].deque), 'pointer': res['tape'].pointer, 'stack': list(res['stack'].deque)}
