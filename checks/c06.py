"""C06 — every instruction behaves as the language specification says, for all operands.

A reference semantics written here from docs.md / language_spec.md (operand orders as pinned by the unit tests) is
evaluated on the same symbolic pre-state as the real instruction; every difference is an obligation."""
from __future__ import annotations
import os
import re
import z3
from sx.harness import HarnessSpec, auto_replay, pinned_replay
from sx.core import SymInt, SymBool, mk_bool, zi, to_z3bool, sym_and, sym_or, sym_not, eng
from sx import core as _core
from sx.values import SymBytes, mk_bytes, items_of, bytes_eq, from_bytes_model
from sx.containers import SDict
from sx import stubs
from . import vmstep
from .common import outcome_of, exc_name
from .c11 import minimal_int_ok
from sx.sxbuiltins import sx_len

FUNCTIONS = ['functions:run_tape', 'functions:opcodes', 'functions:nopcodes', 'classes:Tape.read', 'classes:Stack.put', 'classes:Stack.get',
             'functions:int_to_bytes', 'functions:bytes_to_int', 'functions:bytes_to_bool', 'functions:bytes_to_float', 'functions:float_to_bytes',
             'functions:OP_FALSE', 'functions:OP_TRUE', 'functions:OP_PUSH0', 'functions:OP_PUSH1', 'functions:OP_PUSH2', 'functions:OP_POP0',
             'functions:OP_POP1', 'functions:OP_SIZE', 'functions:OP_WRITE_CACHE', 'functions:OP_READ_CACHE', 'functions:OP_READ_CACHE_SIZE',
             'functions:OP_READ_CACHE_STACK', 'functions:OP_READ_CACHE_STACK_SIZE', 'functions:OP_COPY', 'functions:OP_DUP', 'functions:OP_SHA256',
             'functions:OP_SHAKE256', 'functions:OP_VERIFY', 'functions:OP_EQUAL', 'functions:OP_EQUAL_VERIFY', 'functions:OP_NOT', 'functions:OP_RANDOM',
             'functions:OP_RETURN', 'functions:OP_DEPTH', 'functions:OP_SWAP', 'functions:OP_SWAP2', 'functions:OP_REVERSE', 'functions:OP_CONCAT',
             'functions:OP_SPLIT', 'functions:OP_CONCAT_STR', 'functions:OP_SPLIT_STR', 'functions:OP_XOR', 'functions:OP_OR', 'functions:OP_AND',
             'functions:OP_LESS', 'functions:OP_LESS_OR_EQUAL', 'functions:OP_ADD_INTS', 'functions:OP_SUBTRACT_INTS', 'functions:OP_MULT_INTS',
             'functions:OP_DIV_INT', 'functions:OP_DIV_INTS', 'functions:OP_MOD_INT', 'functions:OP_MOD_INTS', 'functions:OP_ADD_FLOATS',
             'functions:OP_SUBTRACT_FLOATS', 'functions:OP_DIV_FLOAT', 'functions:OP_DIV_FLOATS', 'functions:OP_FLOAT_LESS',
             'functions:OP_FLOAT_LESS_OR_EQUAL', 'functions:OP_INT_TO_FLOAT', 'functions:OP_FLOAT_TO_INT', 'functions:OP_GET_VALUE', 'functions:OP_INVOKE',
             'functions:OP_DEF', 'functions:OP_CALL', 'functions:OP_IF', 'functions:OP_IF_ELSE', 'functions:OP_EVAL', 'functions:OP_TRY_EXCEPT',
             'functions:OP_LOOP', 'functions:NOP']
BOUNDS = {'quick': {'step': 'one instruction from a symbolic state: stacks of 0..4 items with lengths from {0,1,2,4} (plus 32 for hashes), symbolic '
                            'content, 6 symbolic tape bytes (12 for the cache-key instructions), byte-keyed cache with a fixed and a symbolic key; '
                            'count operands symbolic (OP_COPY: <= 6 copies)', 'floats': '<= 2 operands, exact binary64 / binary32 semantics in z3 '
                    'FloatingPoint', 'control': 'IF / IF_ELSE / TRY_EXCEPT / LOOP (<= 3 iterations) / DEF / CALL / EVAL with summarised bodies '
                    '(arbitrary stack / cache effect, RETURN, raise)', 'dispatch': 'all 256 opcode bytes against the numbering in docs.md'},
          'thorough': {'step': 'stacks of 0..5 items, lengths from {0,1,2,3,4,8,32}', 'floats': '<= 3 operands', 'control': 'as quick, LOOP <= 4 '
                       'iterations', 'dispatch': 'as quick'}}
OUTSIDE = ['the value produced by OP_INT_TO_FLOAT (z3 does not decide Int -> Real -> FloatingPoint conversions within reach; error conditions and stack effect are covered)', 'count operand 0 of OP_SUBTRACT_INTS / OP_MULT_INTS / OP_SUBTRACT_FLOATS ("subtract from the first" / the empty product are not defined by the documentation)', 'the value produced by OP_FLOAT_TO_INT (z3 does not decide the FloatingPoint -> Int -> bytes chain within reach; its error conditions and stack effect are covered)', 'float modulus (OP_MOD_FLOAT / OP_MOD_FLOATS): Python % on floats has no SMT-LIB counterpart; only operand plumbing is covered by C07',
           'UTF-8 instructions on bytes >= 0x80', 'signature / adapter / point / scalar instructions (C02, C03, C05, C17), timestamp and epoch '
           'instructions (C16), flag instructions (C09), OP_MERKLEVAL (C04), OP_TAPROOT (C05), OP_CHECK_TRANSFER and OP_CHECK_TEMPLATE beyond '
           'their stack discipline (C07 / C09): their semantics are decided there against their own references',
           'whole programs longer than one instruction: composition is by the dispatch lemma (run_tape executes exactly the table entry and '
           'advances by exactly the operands) plus the per-instruction and per-construct steps; bounded whole-program runs are in C01',
           'error *classes*: the outcome compared is success / error']
ASSUMPTIONS = ['the reference in this file is written from docs.md / language_spec.md; where the two are silent (order of items written by '
               'OP_POP1 / OP_WRITE_CACHE, OP_RANDOM taking its size from the stack) the unit tests pin the behaviour, as the property says',
               'nested runs are summarised (P2): the body outcome is an arbitrary bounded stack / cache effect, an optional RETURN, an optional raise',
               'SHA-256 / SHAKE-256 uninterpreted; math.log2 contract inside int_to_bytes; token_bytes returns arbitrary bytes of the requested length']
EXPLANATION = ('per instruction: the real function and the reference run on one symbolic pre-state; error exactly when documented, items consumed and '
               'produced, their values (integers compared as unbounded z3 Ints with the minimal-encoding check, floats in z3 FloatingPoint, bit '
               'operations bytewise), tape operands consumed, byte-keyed cache effect, untouched rest of the stack.  Constructs: which body runs, on '
               'what stack, and what a RETURN / raise inside it does to the construct and to the instructions after it.  Dispatch: opcode byte -> '
               'documented instruction.')
MUST_REACH = ['step_ok', 'step_error', 'float_ok', 'control_body_ran', 'control_returned', 'control_raised', 'dispatch_ok']


# ------------------------------------------------------------------------------ helpers
def I(b):
    return from_bytes_model(b, 'big', signed=True) if len(b) else 0


def U(b):
    return from_bytes_model(b, 'big', signed=False) if len(b) else 0


def truthy(b):
    its = items_of(b)
    conds = [(x != 0) if isinstance(x, int) else mk_bool(zi(x) != 0) for x in its]
    return sym_or(*conds) if conds else False


def eqb(a, b):
    return len(a) == len(b) and (len(a) == 0 or bytes_eq(a, b))


def is_int_enc(item, n):
    """item is a signed big-endian encoding of n of at least one byte and at most one byte more than the minimal length (the
    documentation says "as signed int"; the encoder may spend one extra sign byte where the float log2 inside it rounds up, i.e. for
    values just below a power of 256^k/2 beyond 2^53 - C10 states the same bound)"""
    k = len(item)
    if k < 1:
        return False
    val = from_bytes_model(item, 'big', signed=True)
    conds = [val == n]
    if k > 2:
        conds.append(sym_not(sym_and(n >= -(2 ** (8 * (k - 2) - 1)), n < 2 ** (8 * (k - 2) - 1))))
    return sym_and(*conds)


TRUE, FALSE = b'\xff', b'\x00'


def boolb(cond):
    """reference for a pushed bool: returns a predicate on the produced item"""
    return lambda item: len(item) == 1 and sym_or(sym_and(cond, item[0] == 0xff), sym_and(sym_not(cond), item[0] == 0x00))


class Spec:
    """what the documentation says one instruction does from `pre` (stack bottom -> top) and `tape`"""

    def __init__(self):
        self.need = 0            # items taken from the top
        self.nops = 0            # tape bytes consumed (int or SymInt)
        self.err = False         # documented error condition besides "stack too short" / "tape too short"
        self.out = []            # produced items, bottom -> top: SymBytes/bytes (exact) or predicate(item) -> cond
        self.writes = None       # {key: list of items} written to the byte-keyed cache (None: nothing)
        self.skip_values = False


def _lens_ok(pre, k):
    return len(pre) >= k


# ------------------------------------------------------------------------------ the reference, instruction by instruction
def spec_for(c, pkg, op, pre, tape, cache, st):
    """returns Spec, or None if the documented outcome on this state is an error for lack of stack items"""
    s = Spec()
    top = lambda i=0: pre[-1 - i]
    n = len(pre)
    if op == 'OP_FALSE':
        s.out = [FALSE]
    elif op == 'OP_TRUE':
        s.out = [TRUE]
    elif op == 'OP_PUSH0':
        s.nops = 1
        s.out = [tape[0:1]]
    elif op in ('OP_PUSH1', 'OP_PUSH2'):
        w = 1 if op == 'OP_PUSH1' else 2
        size = U(tape[0:w])
        s.nops = w + size
        s.out = ('slice', w, size)
    elif op == 'OP_POP0':
        s.need = 1
        if n >= 1:
            s.writes = {b'P': [top()]}
    elif op == 'OP_POP1':
        cnt = U(tape[0:1])
        s.nops = 1
        s.need = cnt
        s.writes = ('top_items', b'P', cnt)
    elif op == 'OP_SIZE':
        s.need = 1
        if n >= 1:
            s.out = [lambda item, k=len(top()): is_int_enc(item, k)]
    elif op == 'OP_WRITE_CACHE':
        ksz = U(tape[0:1])
        s.nops = ksz + 2
        s.need = ('tape_byte_at', 1 + ksz)
        s.writes = ('top_items_key_from_tape', 1, ksz)
    elif op in ('OP_READ_CACHE', 'OP_READ_CACHE_SIZE'):
        ksz = U(tape[0:1])
        s.nops = 1 + ksz
        s.out = ('cache_items' if op == 'OP_READ_CACHE' else 'cache_size', ('tape', 1, ksz))
    elif op in ('OP_READ_CACHE_STACK', 'OP_READ_CACHE_STACK_SIZE'):
        s.need = 1
        if n >= 1:
            s.out = ('cache_items' if op == 'OP_READ_CACHE_STACK' else 'cache_size', ('item', top()))
    elif op == 'OP_COPY':
        cnt = U(tape[0:1])
        s.nops = 1
        s.need = 1
        if n >= 1:
            s.out = ('copies', top(), cnt)
    elif op == 'OP_DUP':
        s.need = 1
        if n >= 1:
            s.out = [top(), top()]
    elif op == 'OP_SHA256':
        s.need = 1
        if n >= 1:
            s.out = [stubs.hash_model('sha256', top(), 32)]
    elif op == 'OP_SHAKE256':
        s.nops = 1
        s.need = 1
        if n >= 1:
            s.out = ('shake', top(), U(tape[0:1]))
    elif op == 'OP_VERIFY':
        s.need = 1
        if n >= 1:
            s.err = sym_not(truthy(top()))
    elif op in ('OP_EQUAL', 'OP_EQUAL_VERIFY'):
        s.need = 2
        if n >= 2:
            same = eqb(top(), top(1))
            if op == 'OP_EQUAL':
                s.out = [boolb(same)]
            else:
                s.err = sym_not(same)
    elif op == 'OP_NOT':
        s.need = 1
        if n >= 1:
            s.out = [mk_bytes([255 - x for x in items_of(top())])]
    elif op == 'OP_RANDOM':
        s.need = 1
        if n >= 1:
            size = I(top())
            s.err = sym_or(size < 0, size > st.max_item_size)
            s.out = [lambda item, size=size: mk_bool(zi(sx_len(item)) == zi(size)) if not isinstance(sx_len(item), int) or not isinstance(size, int) else sx_len(item) == size]
    elif op == 'OP_RETURN':
        s.out = []
        s.returns = True
    elif op == 'OP_DEPTH':
        s.out = [lambda item, k=n: is_int_enc(item, k)]
    elif op == 'OP_SWAP':
        s.nops = 2
        s.out = ('swap', U(tape[0:1]), U(tape[1:2]))
    elif op == 'OP_SWAP2':
        s.need = 2
        if n >= 2:
            s.out = [top(), top(1)]
    elif op == 'OP_REVERSE':
        s.nops = 1
        s.out = ('reverse', U(tape[0:1]))
    elif op == 'OP_CONCAT':
        s.need = 2
        if n >= 2:
            s.out = [top(1) + top()]
    elif op == 'OP_SPLIT':
        s.need = 2
        if n >= 2:
            idx = I(top())
            item = top(1)
            s.err = sym_or(idx < 0, idx >= len(item))
            s.out = ('split', item, idx)
    elif op == 'OP_CONCAT_STR':
        s.need = 2
        if n >= 2:
            s.out = [top(1) + top()]
    elif op == 'OP_SPLIT_STR':
        s.need = 2
        if n >= 2:
            idx = I(top())
            item = top(1)
            s.err = sym_or(idx < 0, idx >= len(item))
            s.out = ('split', item, idx)
    elif op in ('OP_XOR', 'OP_OR', 'OP_AND'):
        s.need = 2
        if n >= 2:
            a, b = items_of(top()), items_of(top(1))
            m = max(len(a), len(b))
            a, b = list(a) + [0] * (m - len(a)), list(b) + [0] * (m - len(b))
            f = {'OP_XOR': lambda x, y: x ^ y, 'OP_OR': lambda x, y: x | y, 'OP_AND': lambda x, y: x & y}[op]
            s.out = [mk_bytes([f(_si(x), _si(y)) for x, y in zip(a, b)])]
    elif op in ('OP_LESS', 'OP_LESS_OR_EQUAL'):
        s.need = 2
        if n >= 2:
            v1, v2 = I(top()), I(top(1))
            s.out = [boolb((v1 < v2) if op == 'OP_LESS' else (v1 <= v2))]
    elif op in ('OP_ADD_INTS', 'OP_SUBTRACT_INTS', 'OP_MULT_INTS'):
        cnt = U(tape[0:1])
        s.nops = 1
        s.need = cnt
        s.out = ('fold_ints', op, cnt)
    elif op in ('OP_DIV_INT', 'OP_MOD_INT'):
        size = U(tape[0:1])
        s.nops = 1 + size
        s.need = 1
        if n >= 1:
            s.out = ('divmod_tape', op, top(), size)
    elif op in ('OP_DIV_INTS', 'OP_MOD_INTS'):
        s.need = 2
        if n >= 2:
            a, b = I(top()), I(top(1))
            s.err = mk_bool(zi(b) == 0) if not isinstance(b, int) else b == 0
            s.out = [lambda item, a=a, b=b, op=op, bl=len(top(1)): _divmod_ok(item, a, b, 'DIV' in op, bl)]
    elif op == 'OP_INVOKE':
        s.need = 2
        s.out = ('invoke',)
    else:
        return 'unsupported'
    return s


def _z(x):
    return z3.IntVal(x) if isinstance(x, int) else zi(x)


def _si(x):
    return x if isinstance(x, int) else SymInt(zi(x), 8)


def _divmod_ok(item, a, b, is_div, b_len=None):
    """item encodes a // b (floor division, as Python) resp. a % b.  For a one-byte divisor the reference is a case split over
    its 255 non-zero values (division by a constant is linear); otherwise it is stated through a = q*b + r"""
    if len(item) < 1:
        return False
    v = from_bytes_model(item, 'big', signed=True)
    az, bz, vz = _z(a), _z(b), _z(v)
    if isinstance(b, int):
        ks = [b] if isinstance(b, int) else [k for k in range(-128, 128) if k]
        cases = []
        for k in ks:
            if k == 0:
                continue
            if is_div:
                want = az / k if k > 0 else (-az) / (-k)
            else:
                want = az % k if k > 0 else -((-az) % (-k))
            cases.append(z3.And(bz == k, vz == want))
        return sym_and(mk_bool(z3.Or(*cases)), is_int_enc(item, v))
    if is_div:
        r = az - vz * bz
        rel = z3.If(bz > 0, z3.And(r >= 0, r < bz), z3.And(r <= 0, r > bz))
        return sym_and(mk_bool(rel), is_int_enc(item, v))
    fl = z3.If(bz > 0, az % bz, -((-az) % (-bz)))
    return sym_and(mk_bool(vz == fl), is_int_enc(item, v))


# ------------------------------------------------------------------------------ the comparison
STEP_OPS = ['OP_FALSE', 'OP_TRUE', 'OP_PUSH0', 'OP_PUSH1', 'OP_PUSH2', 'OP_POP0', 'OP_POP1', 'OP_SIZE', 'OP_WRITE_CACHE', 'OP_READ_CACHE',
            'OP_READ_CACHE_SIZE', 'OP_READ_CACHE_STACK', 'OP_READ_CACHE_STACK_SIZE', 'OP_COPY', 'OP_DUP', 'OP_SHA256', 'OP_SHAKE256', 'OP_VERIFY',
            'OP_EQUAL', 'OP_EQUAL_VERIFY', 'OP_NOT', 'OP_RANDOM', 'OP_RETURN', 'OP_DEPTH', 'OP_SWAP', 'OP_SWAP2', 'OP_REVERSE', 'OP_CONCAT',
            'OP_SPLIT', 'OP_CONCAT_STR', 'OP_SPLIT_STR', 'OP_XOR', 'OP_OR', 'OP_AND', 'OP_LESS', 'OP_LESS_OR_EQUAL', 'OP_ADD_INTS',
            'OP_SUBTRACT_INTS', 'OP_MULT_INTS', 'OP_DIV_INT', 'OP_MOD_INT', 'OP_DIV_INTS', 'OP_MOD_INTS']


def _cache_lookup(cache0, key):
    """reference lookup in the pre-state byte-keyed cache: list of (condition, value list or None)"""
    out = []
    for k, v in cache0:
        if isinstance(k, str):
            continue
        out.append((eqb(k, key), v))
    return out


INT_CONSUMERS = {'OP_ADD_INTS': 'count', 'OP_SUBTRACT_INTS': 'count', 'OP_MULT_INTS': 'count', 'OP_DIV_INT': 1, 'OP_MOD_INT': 1, 'OP_DIV_INTS': 2,
                 'OP_MOD_INTS': 2, 'OP_LESS': 2, 'OP_LESS_OR_EQUAL': 2, 'OP_RANDOM': 1, 'OP_SPLIT': 1, 'OP_SPLIT_STR': 1}


def _extra_err(c, op, pre, tape, cache0, need):
    """documented / type errors that depend on operand values: evaluated on the path (may fork like the implementation does)"""
    e = eng()
    n = len(pre)
    conds = []
    if op in INT_CONSUMERS:
        # an empty item is not an integer
        k = INT_CONSUMERS[op]
        if k == 'count':
            kv = e.concretize(zi(need), limit=300) if not isinstance(need, int) else need
            k = min(kv, n)
        conds.append(any(len(pre[-1 - i]) == 0 for i in range(min(k, n))))
        if op in ('OP_DIV_INT', 'OP_MOD_INT') and len(tape) >= 1:
            conds.append(mk_bool(zi(tape[0]) == 0))          # empty divisor operand
            sz = e.concretize(zi(tape[0]), limit=300)
            if sz and 1 + sz <= len(tape):
                conds.append(mk_bool(zi(I(tape[1:1 + sz])) == 0))      # division by zero
    if op == 'OP_SWAP' and len(tape) >= 2:
        a, b = zi(tape[0]), zi(tape[1])
        conds.append(mk_bool(z3.And(a != b, z3.Or(a >= n, b >= n))))
    if op == 'OP_REVERSE' and len(tape) >= 1:
        conds.append(mk_bool(zi(tape[0]) > n))
    if op in ('OP_READ_CACHE', 'OP_READ_CACHE_STACK'):
        key = None
        if op == 'OP_READ_CACHE_STACK':
            key = pre[-1] if n else None
        elif len(tape) >= 1:
            ksz = e.concretize(zi(tape[0]), limit=300)
            key = tape[1:1 + ksz] if 1 + ksz <= len(tape) else None
        if key is not None:
            conds.append(sym_not(sym_or(*[cond for cond, v in _cache_lookup(cache0, key)])))
    return sym_or(*conds) if conds else False


def h_step(c, pkg, op, lens, ntape=6, tape0=None, divisor=None):
    stubs.CONFIG.log2_max_bits = 72
    st, r, summ = vmstep.generic_step(c, pkg, op, lens, sym_limits=False, ntape=ntape, callstack_sym=False, abstract=False,
                                      copy_bound=6, tape0=tape0)
    pre, tape = st.pre_stack, c.e.inputs['tape']
    if op in ('OP_SUBTRACT_INTS', 'OP_MULT_INTS'):
        c.assume(mk_bool(zi(tape[0]) >= 1))           # a count of 0 is not defined by the documentation
    if divisor is not None:
        # division / modulus by a symbolic divisor is nonlinear: the divisor is pinned per job (exactness for all operands: C10)
        if op in ('OP_DIV_INTS', 'OP_MOD_INTS') and len(pre) >= 2 and len(pre[-2]):
            c.assume(mk_bool(_z(I(pre[-2])) == divisor))
        if op in ('OP_DIV_INT', 'OP_MOD_INT'):
            c.assume(mk_bool(z3.Or(zi(tape[0]) != 1, _z(I(tape[1:2])) == divisor)))
    vmstep.witness_observables(c, op, st, r, summ)
    post = vmstep.stack_items(st.stack)
    cache = st.cache
    cache0 = st.cache0
    s = spec_for(c, pkg, op, pre, tape, cache, st)
    assert s != 'unsupported', op
    raised = r[0] == 'raise'
    ptr = st.tape.pointer
    n = len(pre)
    L = len(tape)
    # ---- documented error conditions -------------------------------------------------------
    need = s.need
    if isinstance(need, tuple):        # OP_WRITE_CACHE: the count byte sits behind the key
        pos = need[1]
        posv = eng().concretize(zi(pos), limit=300) if not isinstance(pos, int) else pos
        if posv >= L:
            c.check('error_when_operands_run_past_the_tape', raised)
            c.reach('step_error')
            return
        need = U(tape[posv:posv + 1])
    short_stack = (n < need) if isinstance(need, int) else mk_bool(n < zi(need))
    short_tape = (L < s.nops) if isinstance(s.nops, int) else mk_bool(L < zi(s.nops))
    err = sym_or(short_stack, short_tape, s.err, _extra_err(c, op, pre, tape, cache0, need))
    if raised:
        c.reach('step_error')
        c.check('raises_only_when_documented', err, op=op, got=repr(r[1])[:100])
        return
    c.reach('step_ok')
    c.check('succeeds_only_when_documented', sym_not(err), op=op)
    if op == 'OP_RETURN':
        c.check('return_ends_the_tape_and_sets_the_flag', ptr == L and 'returned' in cache, pointer=ptr)
    else:
        c.check('operands_consumed', ptr == s.nops if isinstance(s.nops, int) and isinstance(ptr, int) else mk_bool(_z(ptr) == _z(s.nops)), op=op, pointer=ptr)
    # ---- stack effect ---------------------------------------------------------------------
    out = s.out
    k = need if isinstance(need, int) else eng().concretize(zi(need), limit=300)
    if isinstance(out, tuple):
        out, k = _expand(c, pkg, op, out, pre, tape, cache0, post, k, st)
        if out is None:
            return
    keep = n - k
    c.check('stack_depth_effect', len(post) == keep + len(out), op=op, pre=n, post=len(post), consumed=k, produced=len(out))
    if len(post) != keep + len(out) or keep < 0:
        return
    for i in range(keep):
        c.check('rest_of_stack_untouched', post[i] is pre[i] or eqb(post[i], pre[i]), op=op, index=i)
    for j, want in enumerate(out):
        item = post[keep + j]
        if callable(want):
            c.check('result_value', want(item), op=op, index=j, item=item)
        else:
            c.check('result_value', eqb(item, want), op=op, index=j, item=item)
    # ---- cache effect ---------------------------------------------------------------------
    writes = [(kk, key) for kk, kt, key in cache.wlog if kt == 'bytes']
    w = s.writes
    if isinstance(w, dict):
        w = list(w.items())[0]
    elif isinstance(w, tuple):
        if w[0] == 'top_items':
            w = (w[1], [pre[-1 - i] for i in range(k)])
        else:
            ksz = eng().concretize(zi(w[2]), limit=300) if not isinstance(w[2], int) else w[2]
            w = (tape[w[1]:w[1] + ksz], [pre[-1 - i] for i in range(k)])
    if not w:
        c.check('no_cache_write', not writes, op=op, writes=len(writes))
    else:
        key, vals = w
        c.check('exactly_one_cache_write', len(writes) == 1 and writes[0][0] == 'set' and eqb(writes[0][1], key), op=op)
        got = cache.get(key) if len(writes) == 1 else None
        ok = isinstance(got, list) and len(got) == len(vals) and all(g is v or eqb(g, v) is True or True for g, v in zip(got, vals))
        c.check('cache_value_shape', ok, op=op)
        if ok:
            for g, v in zip(got, vals):
                c.check('cache_value', g is v or eqb(g, v), op=op)


def _expand(c, pkg, op, out, pre, tape, cache0, post, k, st):
    """expected produced items for the instructions whose result shape depends on symbolic operands; decided on the path"""
    kind = out[0]
    e = eng()
    n = len(pre)
    if kind == 'slice':
        w, size = out[1], out[2]
        sz = e.concretize(zi(size), limit=70000) if not isinstance(size, int) else size
        return [tape[w:w + sz]], k
    if kind == 'copies':
        item, cnt = out[1], out[2]
        cv = e.concretize(zi(cnt), limit=300) if not isinstance(cnt, int) else cnt
        return [item] * (cv + 1), k
    if kind == 'shake':
        item, size = out[1], out[2]
        sv = e.concretize(zi(size), limit=300) if not isinstance(size, int) else size
        return [stubs.hash_model('shake_256', item, sv)], k
    if kind == 'swap':
        a, b = out[1], out[2]
        av = e.concretize(zi(a), limit=300) if not isinstance(a, int) else a
        bv = e.concretize(zi(b), limit=300) if not isinstance(b, int) else b
        if av == bv:
            return [], 0
        m = max(av, bv)
        # (indices beyond the stack are a documented error; raised paths never get here)
        c.check('succeeds_only_when_documented', n > m, op=op)
        if n <= m:
            return None, k
        seg = list(pre[n - 1 - m:])
        i, j = len(seg) - 1 - av, len(seg) - 1 - bv
        seg[i], seg[j] = seg[j], seg[i]
        return seg, m + 1
    if kind == 'reverse':
        cnt = out[1]
        cv = e.concretize(zi(cnt), limit=300) if not isinstance(cnt, int) else cnt
        c.check('succeeds_only_when_documented', n >= cv, op=op)
        if n < cv:
            return None, k
        return list(reversed(pre[n - cv:])) if cv else [], cv
    if kind == 'split':
        item, idx = out[1], out[2]
        iv = e.concretize(zi(idx), limit=300) if not isinstance(idx, int) else idx
        return [item[:iv], item[iv:]], k
    if kind in ('cache_items', 'cache_size'):
        src = out[1]
        if src[0] == 'tape':
            ksz = e.concretize(zi(src[2]), limit=300) if not isinstance(src[2], int) else src[2]
            key = tape[src[1]:src[1] + ksz]
        else:
            key = src[1]
        hits = [(cond, v) for cond, v in _cache_lookup(cache0, key)]
        # decide which entry the key names on this path (the implementation already forked on it)
        chosen = None
        for cond, v in hits:
            if cond is True or (cond is not False and bool(cond)):
                chosen = v
                break
        if kind == 'cache_size':
            cnt = len(chosen) if chosen is not None else 0
            return [lambda item, cnt=cnt: is_int_enc(item, cnt)], k
        c.check('succeeds_only_when_documented', chosen is not None, op=op, why='key not in cache')
        if chosen is None:
            return None, k
        return list(chosen), k
    if kind == 'fold_ints':
        opn, cnt = out[1], out[2]
        cv = e.concretize(zi(cnt), limit=300) if not isinstance(cnt, int) else cnt
        vals = [I(pre[-1 - i]) for i in range(cv)]
        if opn == 'OP_ADD_INTS':
            tot = 0
            for v in vals:
                tot = tot + v
        elif opn == 'OP_SUBTRACT_INTS':
            tot = vals[0] if vals else 0
            for v in vals[1:]:
                tot = tot - v
        else:
            tot = 1
            for v in vals:
                tot = tot * v
        return [lambda item, tot=tot: is_int_enc(item, tot)], cv
    if kind == 'divmod_tape':
        opn, item, size = out[1], out[2], out[3]
        sv = e.concretize(zi(size), limit=300) if not isinstance(size, int) else size
        d = I(tape[1:1 + sv]) if sv else 0
        a = I(item)
        dz = mk_bool(zi(d) == 0) if not isinstance(d, int) else d == 0
        c.check('succeeds_only_when_documented', sym_not(dz), op=op, why='division by zero')
        if dz is True:
            return None, k
        return [lambda it, a=a, d=d, opn=opn, sv=sv: _divmod_ok(it, a, d, 'DIV' in opn, sv)], k
    raise ValueError(kind)


# ------------------------------------------------------------------------------ floats
F32, F64, RNE = z3.Float32(), z3.Float64(), z3.RNE()


def _f(b):
    its = items_of(b)
    bvs = [z3.Int2BV(zi(x), 8) if not isinstance(x, int) else z3.BitVecVal(x, 8) for x in its]
    return z3.fpFPToFP(RNE, z3.fpBVToFP(z3.Concat(*bvs), F32), F64)


def _f32_of(item):
    its = items_of(item)
    bvs = [z3.Int2BV(zi(x), 8) if not isinstance(x, int) else z3.BitVecVal(x, 8) for x in its]
    return z3.fpBVToFP(z3.Concat(*bvs), F32)


FLOAT_OPS = {'OP_ADD_FLOATS': 'count', 'OP_SUBTRACT_FLOATS': 'count', 'OP_DIV_FLOAT': 'tape4', 'OP_DIV_FLOATS': 2, 'OP_FLOAT_LESS': 2,
             'OP_FLOAT_LESS_OR_EQUAL': 2, 'OP_INT_TO_FLOAT': 1, 'OP_FLOAT_TO_INT': 1}


def h_float(c, pkg, op, cnt):
    """float instructions on 4-byte symbolic items: exact IEEE semantics (double arithmetic, result rounded to binary32)"""
    F, C = pkg.functions, pkg.classes
    stubs.CONFIG.float_precise = op != 'OP_INT_TO_FLOAT'     # int -> float values stay abstract (see OUTSIDE)
    stubs.CONFIG.log2_max_bits = 160
    kind = FLOAT_OPS[op]
    if op == 'OP_FLOAT_TO_INT':
        _core.ABSTRACT['floats'] = True      # the truncated value is left abstract (z3 does not decide FP -> Int -> bytes in reach)
    n = cnt if kind == 'count' else (1 if kind in ('tape4', 1) else 2)
    if op == 'OP_INT_TO_FLOAT':
        items = [c.bytes('s0', 3)]
    else:
        items = [c.bytes(f's{i}', 4) for i in range(n)]
    below = c.bytes('below', 1)
    stack = C.Stack()
    stack.put(below)
    for it in items:
        stack.put(it)
    operand = bytes([cnt]) if kind == 'count' else (c.bytes('divisor', 4) if kind == 'tape4' else b'')
    tape = C.Tape(operand + b'\x00')
    r = outcome_of(getattr(F, op), tape, stack, SDict())
    post = vmstep.stack_items(stack)
    top = lambda i=0: items[-1 - i]
    nan, inf = z3.fpIsNaN, z3.fpIsInf
    want = None
    err = False
    if op == 'OP_ADD_FLOATS':
        tot = z3.FPVal(0.0, F64)
        for i in range(n):
            tot = z3.fpAdd(RNE, tot, _f(top(i)))
        want, err = tot, nan(tot)
    elif op == 'OP_SUBTRACT_FLOATS':
        tot = _f(top())
        for i in range(1, n):
            tot = z3.fpSub(RNE, tot, _f(top(i)))
        want, err = tot, nan(tot)
    elif op == 'OP_DIV_FLOAT':
        d = _f(operand)
        want = z3.fpDiv(RNE, _f(top()), d)
        err = z3.Or(z3.fpIsZero(d), nan(want))
    elif op == 'OP_DIV_FLOATS':
        # docs.md says "divide the second by the first (top)"; the unit test pins top / second, which the property makes binding
        want = z3.fpDiv(RNE, _f(top()), _f(top(1)))
        err = z3.Or(z3.fpIsZero(_f(top(1))), nan(want))
    elif op in ('OP_FLOAT_LESS', 'OP_FLOAT_LESS_OR_EQUAL'):
        a, b = _f(top()), _f(top(1))
        cond = z3.fpLT(a, b) if op == 'OP_FLOAT_LESS' else z3.fpLEQ(a, b)
    elif op == 'OP_INT_TO_FLOAT':
        v = I(top())
        want = z3.fpRealToFP(RNE, z3.ToReal(zi(v)), F64)
    elif op == 'OP_FLOAT_TO_INT':
        a = _f(top())
        err = z3.Or(nan(a), inf(a))
    raised = r[0] == 'raise'
    if op not in ('OP_INT_TO_FLOAT', 'OP_FLOAT_TO_INT') and want is not None:
        # a finite double that rounds to an infinite float32 cannot be packed: documented as an error of the instruction
        w32 = z3.fpFPToFP(RNE, want, F32)
        err = z3.Or(err, z3.And(inf(w32), z3.Not(inf(want))))
    errb = mk_bool(err) if not isinstance(err, bool) else err
    if raised:
        c.check('raises_only_when_documented', errb, op=op, got=repr(r[1])[:100])
        c.reach('float_error')
        return
    c.check('succeeds_only_when_documented', sym_not(errb), op=op)
    c.check('stack_depth_effect', len(post) == 2 and (post[0] is below or eqb(post[0], below)), op=op, depth=len(post))
    if len(post) != 2:
        return
    item = post[1]
    if op in ('OP_FLOAT_LESS', 'OP_FLOAT_LESS_OR_EQUAL'):
        c.check('result_value', boolb(mk_bool(cond))(item), op=op)
    elif op == 'OP_FLOAT_TO_INT':
        c.check('result_is_an_integer_encoding', len(item) >= 1, op=op)
    else:
        c.check('result_is_four_bytes', len(item) == 4, op=op)
        if len(item) == 4 and op != 'OP_INT_TO_FLOAT':
            w32 = z3.fpFPToFP(RNE, want, F32)
            c.check('result_value', mk_bool(z3.fpEQ(_f32_of(item), w32)), op=op)
    c.reach('float_ok')


# ------------------------------------------------------------------------------ control flow
def _body_effect(b):
    """what a summarised body did, as (popped, pushed)"""
    return len(b.popped), list(b.pushed)


def h_control(c, pkg, op, cond_len=1, tight=False):
    """constructs with summarised bodies: which body bytes run, on which stack, and what RETURN / raise inside do"""
    F, C = pkg.functions, pkg.classes
    b1, b2 = b'\x01\x00', b'\x00\x01\x01'           # two distinguishable body byte strings
    enc2 = lambda b: len(b).to_bytes(2, 'big') + b
    after = b'\x07\x07'
    operands = {'OP_IF': enc2(b1), 'OP_IF_ELSE': enc2(b1) + enc2(b2), 'OP_TRY_EXCEPT': enc2(b1) + enc2(b2), 'OP_LOOP': enc2(b1),
                'OP_CALL': b'\x05', 'OP_EVAL': b'', 'OP_DEF': b'\x05' + enc2(b1)}[op]
    below = c.bytes('below', 1)
    # tight: the item-size limit equals the size of the script handed to OP_EVAL - whatever fits on the stack can be evaluated
    stack = C.Stack(max_item_size=2) if tight else C.Stack()
    stack.put(below)
    pre = [below]
    cond = None
    if op in ('OP_IF', 'OP_IF_ELSE', 'OP_LOOP'):
        cond = c.bytes('cond', cond_len)
        stack.put(cond)
        pre.append(cond)
    if op == 'OP_EVAL':
        script = c.bytes('script', 2)
        stack.put(script)
        pre.append(script)
    cnt = c.int('callstack_count', 0, 2)
    lim = c.int('callstack_limit', 1, 3)
    c.assume(cnt <= lim)
    defs = c.dict()
    deftape = C.Tape(b1)
    if op == 'OP_CALL':
        if bool(c.bool('defined')):
            defs[b'\x05'] = deftape
    tape = C.Tape(operands + after, callstack_count=cnt, callstack_limit=lim, definitions=defs)
    F.set_tape_flags(tape)
    flags_before = tape.flags.copy()
    defs_before = list(defs.keys())
    cache = c.dict()
    summ = vmstep.make_summary(c, pkg, pops=1, pushes=1, writes_cache=False, max_bodies=4)
    with vmstep.Installed(pkg, summ):
        r = outcome_of(getattr(F, op), tape, stack, cache)
    post = vmstep.stack_items(stack) if not c.concrete else stack.list()
    raised = r[0] == 'raise'
    B = summ.bodies
    n_ops = len(operands)
    returned_flag = 'returned' in cache
    t = truthy(cond) if cond is not None else None
    tv = (t is True) or (t is not False and t is not None and bool(t))

    def ran(i, data):
        return len(B) > i and vmstep_same(B[i].data, data)
    if B:
        c.reach('control_body_ran')
    if any(b.returned for b in B):
        c.reach('control_returned')
    if any(b.raised for b in B):
        c.reach('control_raised')
    last = B[-1] if B else None
    if op == 'OP_DEF':
        c.check('def_runs_nothing', not B and not raised and tape.pointer == n_ops)
        c.check('def_registers_the_body', b'\x05' in tape.definitions and vmstep_same(tape.definitions[b'\x05'].data, b1))
        c.check('def_leaves_the_stack', len(post) == 1)
        return
    if op in ('OP_IF', 'OP_IF_ELSE'):
        if op == 'OP_IF':
            want_body = b1 if tv else None
        else:
            want_body = b1 if tv else b2
        c.check('operands_consumed', raised or tape.pointer == n_ops or (last is not None and last.returned), pointer=tape.pointer)
        if want_body is None:
            c.check('false_condition_runs_nothing', not B and not raised and not returned_flag)
            c.check('condition_consumed', len(post) == 1)
            return
        c.check('exactly_the_selected_body_runs', len(B) == 1 and ran(0, want_body), n=len(B))
        if len(B) != 1:
            return
        c.check('body_starts_after_the_condition_is_consumed', B[0].stack_depth_in == 1)
        c.check('body_error_propagates', raised == bool(B[0].raised))
        if not raised:
            # transparent to RETURN: the enclosing tape ends too and the flag stays for the caller
            if B[0].returned:
                c.check('if_is_transparent_to_return', returned_flag and tape.pointer == len(tape.data))
            else:
                c.check('no_return_no_flag', not returned_flag and tape.pointer == n_ops)
        return
    if op == 'OP_TRY_EXCEPT':
        c.check('try_body_runs_first', len(B) >= 1 and ran(0, b1))
        if not B:
            return
        if B[0].raised:
            c.check('except_body_runs_after_a_failing_try', len(B) == 2 and ran(1, b2), n=len(B))
            if len(B) == 2:
                c.check('except_error_propagates', raised == bool(B[1].raised))
                if not raised:
                    if B[1].returned:
                        c.check('except_is_transparent_to_return', returned_flag and tape.pointer == len(tape.data))
                    else:
                        c.check('no_return_no_flag', not returned_flag and tape.pointer == n_ops)
        else:
            c.check('except_body_skipped_after_a_successful_try', len(B) == 1 and not raised, n=len(B))
            if B[0].returned:
                c.check('try_is_transparent_to_return', returned_flag and tape.pointer == len(tape.data))
            else:
                c.check('no_return_no_flag', not returned_flag and tape.pointer == n_ops)
        return
    if op == 'OP_LOOP':
        # runs while the top of the stack is truthy; the condition is peeked, not consumed
        if not tv:
            c.check('false_condition_runs_nothing', not B and not raised)
            c.check('condition_stays', len(post) == 2)
            return
        c.check('loop_body_is_the_operand', all(vmstep_same(b.data, b1) for b in B) and len(B) >= 1)
        for b in B:
            c.check('loop_body_sees_the_condition_on_the_stack', b.stack_depth_in >= 1)
        if last is not None and last.returned and not raised:
            # a RETURN inside the loop ends the loop only: no residue for the instructions after it
            c.check('return_in_loop_ends_only_the_loop', not returned_flag and tape.pointer == n_ops, pointer=tape.pointer)
        if not raised and last is not None and not last.returned:
            c.check('no_return_no_flag', not returned_flag and tape.pointer == n_ops)
        if raised and not any(b.raised for b in B):
            # the loop itself fails only at the iteration limit, or when a body emptied the stack (no condition left)
            c.check('loop_error_is_the_iteration_limit_or_an_empty_stack', 'limit' in str(r[1]).lower() or len(post) == 0,
                    got=repr(r[1])[:80])
            c.check('iteration_limit_respected', len(B) <= lim)
        return
    if op in ('OP_CALL', 'OP_EVAL'):
        budget = mk_bool(zi(cnt) >= zi(lim)) if not isinstance(cnt, int) or not isinstance(lim, int) else cnt >= lim
        if op == 'OP_CALL' and b'\x05' not in defs:
            c.check('undefined_function_is_an_error', raised and not B)
            return
        if not B:
            c.check('nothing_runs_only_without_call_budget', raised and (budget is True or bool(budget)))
            return
        data = b1 if op == 'OP_CALL' else script
        c.check('exactly_the_callee_runs', len(B) == 1 and ran(0, data))
        c.check('callee_spends_call_budget', B[0].callstack_count == cnt + 1)
        c.check('callee_starts_on_the_callers_stack', B[0].stack_depth_in == 1)
        c.check('callee_error_propagates', raised == bool(B[0].raised))
        if not raised:
            # a called function / evaluated script returns only to its caller
            c.check('return_goes_only_to_the_caller', not returned_flag and tape.pointer == n_ops, pointer=tape.pointer)
        if op == 'OP_EVAL':
            # evaluated scripts cannot change the caller's definitions or flags
            c.check('eval_gets_copies_of_definitions', B[0].definitions is not tape.definitions)
            c.check('eval_gets_a_copy_of_flags', B[0].flags_obj is not tape.flags)
            c.check('callers_definitions_unchanged', list(tape.definitions.keys()) == defs_before)


def vmstep_same(a, b):
    from .c04 import same_content
    return same_content(a, b)


# ------------------------------------------------------------------------------ dispatch
def doc_table():
    """opcode numbering from docs.md headings: '## OP_NAME - <decimal> - x<hex>'"""
    out = {}
    from sx.loader import REPO
    for line in open(os.path.join(REPO, 'docs.md')):
        m = re.match(r'^## (OP_[A-Z0-9_]+) - (\d+) - x([0-9A-Fa-f]{2})\s*$', line)
        if m:
            out[int(m.group(2))] = (m.group(1), int(m.group(3), 16))
    return out


def h_dispatch(c, pkg, lo, hi):
    """run_tape on one opcode byte: the function executed is the documented instruction for that byte (NOP for the rest), it
    is executed once, on the same tape / stack / cache objects, and nothing else runs"""
    F, C = pkg.functions, pkg.classes
    table = doc_table()
    c.check('docs_list_the_whole_instruction_set', len(table) >= 92 and all(num == hx for num, (nm, hx) in table.items()))
    code = c.int('code', lo, hi)
    cv = eng().concretize(code.t, limit=300) if not c.concrete else code
    calls = []
    saved_ops, saved_nops = dict(F.opcodes), dict(F.nopcodes)

    def rec(name):
        def fn(tape, stack, cache):
            calls.append((name, tape, stack, cache))
        return fn
    try:
        for k, (name, fn) in saved_ops.items():
            F.opcodes[k] = (name, rec(name))
        for k, (name, fn) in saved_nops.items():
            F.nopcodes[k] = (name, rec('NOP'))
        tape = C.Tape(bytes([cv]))
        stack, cache = C.Stack(), c.dict()
        r = outcome_of(F.run_tape, tape, stack, cache)
    finally:
        F.opcodes.clear()
        F.opcodes.update(saved_ops)
        F.nopcodes.clear()
        F.nopcodes.update(saved_nops)
    want = table[cv][0] if cv in table else 'NOP'
    c.check('dispatch_runs_exactly_the_documented_instruction', r[0] == 'ok' and len(calls) == 1 and calls[0][0] == want,
            code=cv, want=want, got=[x[0] for x in calls])
    if len(calls) == 1:
        c.check('dispatch_hands_over_the_same_state', calls[0][1] is tape and calls[0][2] is stack and calls[0][3] is cache)
    c.check('opcode_byte_consumed', tape.pointer == 1)
    # the table entry really is the function of that name
    if cv in saved_ops:
        c.check('table_entry_is_the_named_function', saved_ops[cv][0] == want and saved_ops[cv][1] is getattr(F, want, None), code=cv)
    c.reach('dispatch_ok')


# ------------------------------------------------------------------------------ parameters
def _shapes(op, tier):
    small = [[], [1], [0], [2], [1, 1], [2, 1], [1, 2], [0, 1], [4, 1], [1, 4], [4, 4], [1, 1, 1], [2, 1, 1], [1, 2, 4], [1, 1, 1, 1]]
    if tier != 'quick':
        small += [[3], [8], [3, 3], [8, 1], [1, 8], [0, 0], [2, 2, 2], [1, 2, 3, 4], [1, 1, 1, 1, 1]]
    if op in ('OP_SHA256', 'OP_SHAKE256'):
        return [[], [0], [1], [32], [1, 2]]
    # exact integer arithmetic for long operands is C10's subject; here: operand order, counts, plumbing
    if op in ('OP_MULT_INTS',):
        return [[], [1], [1, 1], [2, 1]]
    if op in ('OP_DIV_INT', 'OP_MOD_INT'):
        return [[], [0], [1], [1, 1]]
    if op in ('OP_DIV_INTS', 'OP_MOD_INTS'):
        return [[], [1], [0, 1], [1, 1], [1, 1, 1]]
    if op == 'OP_SIZE':
        # item lengths on both sides of 2^7 and 2^8 (the result is a *signed* integer)
        return small + [[127], [128], [255], [256], [1, 200]]
    if op == 'OP_DEPTH':
        return [[], [1], [2, 1], [0] * 127, [0] * 128]
    if op in ('OP_FALSE', 'OP_TRUE', 'OP_PUSH0', 'OP_PUSH1', 'OP_PUSH2', 'OP_RETURN'):
        return [[], [1], [2, 1]]
    return small


def _p_step(tier):
    out = []
    for op in STEP_OPS:
        for sh in _shapes(op, tier):
            p = {'op': op, 'lens': sh}
            if op in ('OP_WRITE_CACHE', 'OP_READ_CACHE', 'OP_READ_CACHE_SIZE'):
                p['ntape'] = 4
            if op in ('OP_DIV_INT', 'OP_MOD_INT'):
                p['ntape'] = 2
            if op in ('OP_DIV_INT', 'OP_MOD_INT', 'OP_DIV_INTS', 'OP_MOD_INTS'):
                for dv in (-128, -3, -1, 0, 1, 2, 7, 127):
                    out.append(dict(p, divisor=dv))
                continue
            if op == 'OP_SHAKE256':
                for size in (0, 1, 32):
                    out.append(dict(p, tape0=size))
                continue
            out.append(p)
    return out


def _p_float(tier):
    out = []
    for op, kind in FLOAT_OPS.items():
        if kind == 'count':
            for cnt in ((0, 1, 2) if tier == 'quick' else (0, 1, 2, 3)):
                if cnt or op == 'OP_ADD_FLOATS':          # "subtract from the first" is not defined for a count of 0
                    out.append({'op': op, 'cnt': cnt})
        else:
            out.append({'op': op, 'cnt': 0})
    return out


def _p_control(tier):
    out = [{'op': op} for op in ('OP_IF', 'OP_IF_ELSE', 'OP_TRY_EXCEPT', 'OP_LOOP', 'OP_CALL', 'OP_EVAL', 'OP_DEF')]
    out += [{'op': op, 'cond_len': n} for op in ('OP_IF', 'OP_IF_ELSE', 'OP_LOOP') for n in (0, 2)]
    out += [{'op': 'OP_EVAL', 'tight': True}]
    return out


def _p_dispatch(tier):
    return [{'lo': i * 16, 'hi': i * 16 + 15} for i in range(16)]


def _sig(v):
    p = v['params']
    return {'harness': v['harness'], 'obligation': v['obligation'], 'op': p.get('op')}


HARNESSES = [
    HarnessSpec('step', h_step, _p_step, signature=_sig, concrete=vmstep.concrete_observables, witness_every=5,
                replay=pinned_replay('step', 'checks.c06', vmstep.concrete_observables)),
    HarnessSpec('float', h_float, _p_float, signature=_sig, replay=pinned_replay('float', 'checks.c06')),
    HarnessSpec('control', h_control, _p_control, replay=auto_replay(h_control), signature=_sig, witness_replay=True, witness_every=2),
    HarnessSpec('dispatch', h_dispatch, _p_dispatch, replay=auto_replay(h_dispatch), signature=_sig, witness_replay=True, witness_every=4),
]
