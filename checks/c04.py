"""C04 — merklized scripts: only committed branches run, and every committed branch can."""
from __future__ import annotations
import z3
from sx.harness import HarnessSpec, auto_replay
from sx.core import SymInt, SymBool, mk_bool, zi, to_z3bool, sym_and, sym_or, sym_not, eng
from sx import core as _core
from sx.values import SymBytes, mk_bytes, items_of, bytes_eq
from sx import stubs
from . import vmstep
from .common import outcome_of, exc_name

FUNCTIONS = ['functions:OP_MERKLEVAL', 'functions:OP_DUP', 'functions:OP_SHA256', 'functions:OP_SWAP', 'functions:OP_SWAP2', 'functions:OP_XOR',
             'functions:xor', 'functions:OP_EQUAL_VERIFY', 'functions:bytes_are_same', 'functions:OP_EVAL', 'functions:run_auth_scripts',
             'functions:run_script', 'functions:run_tape', 'functions:OP_PUSH0', 'functions:OP_PUSH1', 'tools:Script', 'tools:ScriptLeaf.from_script',
             'tools:ScriptLeaf.unlocking_script', 'tools:ScriptLeaf.pack', 'tools:ScriptLeaf.unpack', 'tools:ScriptNode.root',
             'tools:ScriptNode.locking_script', 'tools:ScriptNode.commitment', 'tools:ScriptNode.unlocking_script', 'tools:ScriptNode.pack',
             'tools:ScriptNode.unpack', 'tools:make_script_tree_prioritized', 'tools:make_merklized_script_prioritized',
             'tools:make_script_tree_balanced', 'tools:make_merklized_script_balanced', 'tools:xor', 'parsing:compile_script',
             'parsing:decompile_script']
BOUNDS = {'quick': {'step': 'OP_MERKLEVAL from a symbolic state: root 32 symbolic bytes, supplied script 1..3 symbolic bytes, sibling item of length '
                            '0, 1, 32, 33 (symbolic), 0..2 items below, symbolic call budget', 'tree_shapes': 'every binary tree shape with 2..4 '
                    'leaves, every leaf; leaf scripts = 2 symbolic bytes each (pairwise different), plus one leaf of 255 / 256 / 257 bytes', 'builders': 'prioritized and balanced builders, '
                    '1..6 leaves, every leaf', 'pack': 'every shape with 2..4 leaves, leaf scripts `push x<symbolic byte>`', 'graft': 'a used 2-leaf tree grafted left / right / through make_script_tree_prioritized(leaves, tree), every leaf'},
          'thorough': {'step': 'as quick, script 1..4 bytes, 0..3 items below', 'tree_shapes': 'every shape with 2..6 leaves', 'builders': '1..8 leaves (a 9-leaf job already takes more than ten minutes)',
                       'pack': 'every shape with 2..5 leaves'}}
OUTSIDE = ['SHA-256 itself (uninterpreted; equal inputs give equal digests).  That a (script, sibling) pair which was not committed cannot be made to hash '
           'to the root is the xor-of-hashes preimage assumption of the construction, not a property of this code: the check shows that '
           'exactly the pairs that hash to the root are evaluated', 'trees with more leaves than the bound; trees in which two leaves carry '
           'the same script bytes', 'what the leaf script itself does (its run is summarised: arbitrary verdict)']
ASSUMPTIONS = ['the evaluation of a leaf script is summarised (symbolic outcome: raises / leaves true / leaves false / leaves nothing); which script '
               'bytes are handed to the evaluator, on which stack, is observed on the real OP_EVAL', 'byte xor inside the equality test is an '
               'uninterpreted function with xor8(a,b)=0 <=> a=b (exact for deciding equality)']
EXPLANATION = ('(a) one OP_MERKLEVAL from an arbitrary state: the supplied script is evaluated iff sha256(sha256(script)) xor sha256(sibling) equals the '
               'root operand, on a stack from which both proof items are gone; otherwise an error is raised and no evaluation starts; (b) for every tree '
               'shape / builder output and every leaf, the generated unlocking script followed by the locking script evaluates exactly that leaf, '
               'once, on an empty stack, evaluates only node locking scripts on the way, and the verdict is the leaf verdict; (c) unpack(pack(tree)) '
               'has the same root and the same unlocking script for every leaf')
MUST_REACH = ['graft_leaf', 'step_evaluated', 'step_rejected', 'leaf_true', 'leaf_false', 'leaf_raise', 'builder_leaf', 'pack_roundtrip']


def _setup():
    _core.ABSTRACT['xor_uf'] = 'zero'


def H(c, data):
    if c.concrete:
        import hashlib
        return hashlib.sha256(bytes(data)).digest()
    return stubs.hash_model('sha256', data, 32)


def XOR(c, pkg, a, b):
    return pkg.functions.xor(a, b)          # the package's own bytewise xor on equal-length strings (reference side too)


def same_content(a, b):
    """structural equality of two byte strings (same concrete bytes / the very same symbolic byte terms)"""
    ia, ib = items_of(a) if not isinstance(a, (bytes, bytearray)) else list(a), items_of(b) if not isinstance(b, (bytes, bytearray)) else list(b)
    if len(ia) != len(ib):
        return False
    for x, y in zip(ia, ib):
        if isinstance(x, int) and isinstance(y, int):
            if x != y:
                return False
        elif isinstance(x, int) or isinstance(y, int):
            return False
        elif not (x is y or zi(x).eq(zi(y))):
            return False
    return True


# ------------------------------------------------------------------------------ (a) one MERKLEVAL step
def h_step(c, pkg, below, sib, slen):
    F, C = pkg.functions, pkg.classes
    if not c.concrete:
        _setup()
    script = c.bytes('script', slen)
    sibling = c.bytes('sibling', sib)
    ref_root = XOR(c, pkg, H(c, H(c, script)), H(c, sibling))
    root = c.bytes('root', 32)
    if c.concrete:
        # a concrete replay cannot take digests from the model: the root is recomputed when the model said it matches
        if c.inputs.get('matches'):
            root = ref_root
        elif root == ref_root:
            root = bytes([root[0] ^ 1]) + root[1:]
    matches = bytes_eq(ref_root, root) if not c.concrete else root == ref_root
    c.input('matches', matches)
    cnt = c.int('callstack_count', 0, 2)
    lim = c.int('callstack_limit', 1, 2)
    c.assume(cnt <= lim)
    stack = C.Stack()
    lower = [c.bytes(f'below{i}', n) for i, n in enumerate(below)]
    for it in lower + [sibling, script]:
        stack.put(it)
    tape = C.Tape(root + b'\x00', callstack_count=cnt, callstack_limit=lim)
    F.set_tape_flags(tape)
    cache = c.dict()
    summ = vmstep.make_summary(c, pkg, pops=1, pushes=1, writes_cache=False)
    depth_at_start = []

    class Probe:
        def __call__(self, tape_, stack_, cache_, additional_flags=None):
            depth_at_start.append(len(stack_))
            return summ(tape_, stack_, cache_, additional_flags)
    with vmstep.Installed(pkg, Probe()):
        r = outcome_of(F.OP_MERKLEVAL, tape, stack, cache)
    if summ.bodies:
        c.reach('step_evaluated')
        b = summ.bodies[0]
        c.check('evaluated_only_if_the_proof_hashes_to_the_root', matches)
        c.check('exactly_one_evaluation', len(summ.bodies) == 1)
        c.check('evaluated_script_is_the_supplied_script', same_content(b.data, script))
        c.check('proof_items_consumed_before_the_script_starts', depth_at_start[0] == len(below))
        c.check('evaluation_spends_call_budget', b.callstack_count == cnt + 1)
        c.check('root_operand_consumed', tape.pointer == 32)
    else:
        c.reach('step_rejected')
        c.check('rejected_with_an_error', r[0] == 'raise', got=repr(r)[:120])
        if r[0] == 'raise':
            msg = str(r[1])
            budget = 'callstack limit exceeded' in msg
            # a proof that hashes to the root is refused only for lack of call budget
            c.check('matching_proof_is_evaluated', sym_or(sym_not(matches), budget), err=msg[:80])
            if budget:
                c.check('budget_error_only_when_exhausted', cnt >= lim)


# ------------------------------------------------------------------------------ (b) trees
def shapes(n):
    """all binary tree shapes with n leaves; a shape is an int (leaf slot, numbered left to right later) or a pair"""
    if n == 1:
        return ['L']
    out = []
    for k in range(1, n):
        for a in shapes(k):
            for b in shapes(n - k):
                out.append((a, b))
    return out


def _build(T, shape, leaves, counter):
    if shape == 'L':
        leaf = T.ScriptLeaf.from_script(leaves[counter[0]])
        counter[0] += 1
        counter.append(leaf)
        return leaf
    left = _build(T, shape[0], leaves, counter)
    right = _build(T, shape[1], leaves, counter)
    return T.ScriptNode(left, right)


def _depth(leaf):
    d, p = 0, leaf.parent
    while p is not None:
        d, p = d + 1, p.parent
    return d


class LeafLogger:
    """run_tape wrapper: EVAL sub-tapes (callstack_count > 0) whose data is one of the leaf scripts are logged and summarised
    (symbolic / replayed outcome); node locking scripts (OP_MERKLEVAL <root>) run for real; anything else is logged as foreign"""

    def __init__(self, c, pkg, leaf_codes):
        self.c, self.pkg, self.leaf_codes = c, pkg, leaf_codes
        self.leaf_runs, self.nodes, self.foreign, self.depths, self.outcome = [], 0, [], [], None

    def __enter__(self):
        F = self.pkg.functions
        self.real = F.run_tape
        me = self
        MERKLEVAL = F.opcodes_inverse['OP_MERKLEVAL'][0]

        def run_tape(tape, stack, cache, additional_flags=None):
            if tape.callstack_count > 0:
                hit = [k for k, code in enumerate(me.leaf_codes) if same_content(tape.data, code)]
                if hit:
                    k = len(me.leaf_runs)
                    me.leaf_runs.append(hit[0])
                    me.depths.append(len(stack))
                    if additional_flags is not None:
                        F.set_tape_flags(tape, additional_flags)
                    tape.pointer = len(tape.data)
                    if bool(me.c.bool(f'leafrun{k}.raises')):
                        me.outcome = 'raise'
                        raise me.pkg.errors.ScriptExecutionError('leaf script failed')
                    if bool(me.c.bool(f'leafrun{k}.leaves_true')):
                        me.outcome = 'true'
                        stack.put(b'\xff')
                    elif bool(me.c.bool(f'leafrun{k}.leaves_false')):
                        me.outcome = 'false'
                        stack.put(b'\x00')
                    else:
                        me.outcome = 'nothing'
                    return
                first = items_of(tape.data)[0] if not isinstance(tape.data, (bytes, bytearray)) else tape.data[0]
                if len(tape.data) == 33 and isinstance(first, int) and first == MERKLEVAL:
                    me.nodes += 1
                else:
                    # neither a leaf nor a node lock: logged, and not executed (arbitrary symbolic bytes as a program explode; the
                    # obligation below fails anyway)
                    me.foreign.append(len(tape.data))
                    raise me.pkg.errors.ScriptExecutionError('foreign script handed to the evaluator')
            if additional_flags is None:
                return me.real(tape, stack, cache)
            return me.real(tape, stack, cache, additional_flags)
        F.run_tape = run_tape
        return self

    def __exit__(self, *a):
        self.pkg.functions.run_tape = self.real
        return False


def _leaf_scripts(c, pkg, n, slen=2, big=None, dup=None):
    T = pkg.tools
    codes = [c.bytes(f'leaf{i}', slen) for i in range(n)]
    if dup:
        # the same script at two places that are not siblings (allowed: only *sibling* commitments must differ)
        codes[dup[1]] = codes[dup[0]]
    if big:
        # leaf 0 is `big` concrete bytes (its run is summarised; only its length matters: push encodings at 255 / 256 / 257)
        codes[0] = b'\x01' * big          # concrete (were it ever executed outside its summarised evaluation, it only pushes)
    for i in range(n):
        for j in range(i):
            if codes[i] is codes[j]:
                continue
            c.assume(sym_not(bytes_eq(codes[i], codes[j])) if not c.concrete else codes[i] != codes[j])
    return codes, [T.Script(f'# leaf {i}', codes[i]) for i in range(n)]


def _check_leaf_run(c, pkg, unlock, lock, codes, want_leaf, depth, tag):
    F = pkg.functions
    log = LeafLogger(c, pkg, codes)
    with log:
        r = outcome_of(F.run_auth_scripts, [unlock, lock], c.dict())
    c.check('authorization_never_raises', r[0] == 'ok', got=repr(r)[:160])
    first = next(k for k, code in enumerate(codes) if same_content(code, codes[want_leaf]))     # (equal scripts are one script)
    c.check('exactly_the_chosen_leaf_is_evaluated_once', log.leaf_runs == [first], ran=log.leaf_runs, want=first)
    c.check('nothing_but_node_locks_and_the_leaf_is_evaluated', not log.foreign, foreign=log.foreign)
    c.check('one_node_lock_per_level', log.nodes == depth - 1, nodes=log.nodes, depth=depth)
    if log.leaf_runs:
        c.check('leaf_starts_on_an_empty_stack', log.depths[0] == 0, depth=log.depths[0])
    if r[0] == 'ok':
        c.check('verdict_is_the_leaf_verdict', r[1] == (log.outcome == 'true'), verdict=r[1], leaf_outcome=log.outcome)
    if log.outcome:
        c.reach({'true': 'leaf_true', 'false': 'leaf_false', 'raise': 'leaf_raise', 'nothing': 'leaf_false'}[log.outcome])
    c.reach(tag)


def h_tree(c, pkg, n, shape_idx, leaf, big=None, dup=None):
    T = pkg.tools
    if not c.concrete:
        _setup()
    codes, scripts = _leaf_scripts(c, pkg, n, big=big, dup=dup)
    acc = [0]
    root = _build(T, shapes(n)[shape_idx], scripts, acc)
    leaves = acc[1:]
    lf = leaves[leaf]
    unlock = lf.unlocking_script()
    lock = root.locking_script()
    _check_leaf_run(c, pkg, unlock.bytes, lock.bytes, codes, leaf, _depth(lf), 'tree_leaf')


def h_graft(c, pkg, variant, leaf):
    """a tree that was already used (unlocking scripts generated, as a caller does when it verifies it) is grafted into a larger
    tree afterwards - through ScriptNode(...) or the documented `tree` parameter of make_script_tree_prioritized; the unlocking
    scripts generated after the graft must be those of the new tree"""
    T = pkg.tools
    if not c.concrete:
        _setup()
    codes, scripts = _leaf_scripts(c, pkg, 3)
    l0, l1 = T.ScriptLeaf.from_script(scripts[0]), T.ScriptLeaf.from_script(scripts[1])
    sub = T.ScriptNode(l0, l1)
    # use of the small tree before the graft
    for x in (l0, l1, sub):
        x.unlocking_script()
    sub.locking_script()
    if variant == 'left':
        l2 = T.ScriptLeaf.from_script(scripts[2])
        root = T.ScriptNode(sub, l2)
    elif variant == 'right':
        l2 = T.ScriptLeaf.from_script(scripts[2])
        root = T.ScriptNode(l2, sub)
    else:
        root = T.make_script_tree_prioritized([scripts[2]], sub)
        l2 = root.left if isinstance(root.left, T.ScriptLeaf) else root.right
    lf = [l0, l1, l2][leaf]
    _check_leaf_run(c, pkg, lf.unlocking_script().bytes, root.locking_script().bytes, codes, leaf, _depth(lf), 'graft_leaf')


def h_builder(c, pkg, builder, n, leaf):
    T = pkg.tools
    if not c.concrete:
        _setup()
    codes, scripts = _leaf_scripts(c, pkg, n)
    fn = T.make_merklized_script_prioritized if builder == 'prioritized' else T.make_merklized_script_balanced
    tree_fn = T.make_script_tree_prioritized if builder == 'prioritized' else T.make_script_tree_balanced
    lock, unlocks = fn(list(scripts))
    c.check('one_unlocking_script_per_leaf', len(unlocks) >= n, got=len(unlocks), n=n)
    if len(unlocks) <= leaf:
        return
    # depth of that leaf in the tree the builder makes (rebuilt with the tree function: same construction)
    depth = len([1 for _ in _pushes(pkg, unlocks[leaf].bytes)]) // 2
    _check_leaf_run(c, pkg, unlocks[leaf].bytes, lock.bytes, codes, leaf, depth, 'builder_leaf')


def _pushes(pkg, code):
    """the items an unlocking script pushes (it consists of PUSH0 / PUSH1 instructions only)"""
    F = pkg.functions
    its = items_of(code) if not isinstance(code, (bytes, bytearray)) else list(code)
    p0, p1 = F.opcodes_inverse['OP_PUSH0'][0], F.opcodes_inverse['OP_PUSH1'][0]
    i = 0
    while i < len(its):
        if its[i] == p0:
            yield its[i + 1:i + 2]
            i += 2
        elif its[i] == p1:
            n = its[i + 1]
            yield its[i + 2:i + 2 + n]
            i += 2 + n
        else:
            raise ValueError('unlocking script contains something else than pushes')


# ------------------------------------------------------------------------------ (c) pack / unpack
def h_pack(c, pkg, n, shape_idx):
    T, F = pkg.tools, pkg.functions
    if not c.concrete:
        _setup()
    p0 = bytes([F.opcodes_inverse['OP_PUSH0'][0]])
    codes = [p0 + c.bytes(f'leaf{i}', 1) for i in range(n)]
    scripts = [T.Script(f'push x{"%02x" % i}', codes[i]) for i in range(n)]
    acc = [0]
    root = _build(T, shapes(n)[shape_idx], scripts, acc)
    leaves = acc[1:]
    packed = root.pack()
    r = outcome_of(T.ScriptNode.unpack, packed)
    c.check('unpack_accepts_what_pack_wrote', r[0] == 'ok', got=repr(r)[:200])
    if r[0] != 'ok':
        return
    tree2 = r[1]
    eq = (lambda a, b: len(a) == len(b) and bytes_eq(a, b)) if not c.concrete else (lambda a, b: a == b)
    c.check('root_preserved', eq(tree2.root(), root.root()))
    c.check('locking_script_preserved', eq(tree2.locking_script().bytes, root.locking_script().bytes))

    def collect(node, out):
        for ch in (node.left, node.right):
            if isinstance(ch, T.ScriptLeaf):
                out.append(ch)
            else:
                collect(ch, out)
        return out
    leaves2 = collect(tree2, [])
    c.check('same_number_of_leaves', len(leaves2) == len(leaves))
    for a, b in zip(leaves, leaves2):
        c.check('leaf_script_preserved', eq(a.script.bytes, b.script.bytes))
        c.check('leaf_unlocking_script_preserved', eq(a.unlocking_script().bytes, b.unlocking_script().bytes))
    c.check('repacking_gives_the_same_bytes', eq(tree2.pack(), packed))
    c.reach('pack_roundtrip')


# ------------------------------------------------------------------------------ parameters
def _p_step(tier):
    out = []
    for slen in ((1, 2, 3) if tier == 'quick' else (1, 2, 3, 4)):
        for sib in (0, 1, 32, 33):
            for below in ([], [1], [1, 2]) if tier == 'quick' else ([], [1], [1, 2], [1, 2, 32]):
                out.append({'below': below, 'sib': sib, 'slen': slen})
    return out


def _p_tree(tier):
    top = 4 if tier == 'quick' else 6
    out = [{'n': n, 'shape_idx': s, 'leaf': l} for n in range(2, top + 1) for s in range(len(shapes(n))) for l in range(n)]
    # leaf scripts whose length sits on the push-instruction boundaries (the proof pushes the script itself)
    sizes = (255, 256, 257) if tier == 'quick' else (127, 128, 255, 256, 257, 1000)
    out += [{'n': 3, 'shape_idx': 1, 'leaf': l, 'big': b} for b in sizes for l in (0, 2)]
    # the same script twice on one proof path, not as siblings: (A, (A, B)), ((A, B), A), (A, (B, (A, C))) ...
    sh3, sh4 = shapes(3), shapes(4)
    out += [{'n': 3, 'shape_idx': sh3.index(('L', ('L', 'L'))), 'leaf': l, 'dup': [0, 1]} for l in range(3)]
    out += [{'n': 3, 'shape_idx': sh3.index((('L', 'L'), 'L')), 'leaf': l, 'dup': [0, 2]} for l in range(3)]
    out += [{'n': 4, 'shape_idx': sh4.index(('L', ('L', ('L', 'L')))), 'leaf': l, 'dup': [0, 2]} for l in range(4)]
    return out


def _p_builder(tier):
    top = 6 if tier == 'quick' else 8
    return [{'builder': b, 'n': n, 'leaf': l} for b in ('prioritized', 'balanced') for n in range(1, top + 1) for l in range(n)]


def _p_pack(tier):
    top = 4 if tier == 'quick' else 5
    return [{'n': n, 'shape_idx': s} for n in range(2, top + 1) for s in range(len(shapes(n)))]


def _sig(v):
    p = v['params']
    return {'harness': v['harness'], 'obligation': v['obligation'], 'builder': p.get('builder')}


HARNESSES = [
    HarnessSpec('step', h_step, _p_step, replay=auto_replay(h_step), signature=_sig, witness_replay=True, witness_every=3),
    HarnessSpec('tree', h_tree, _p_tree, replay=auto_replay(h_tree), signature=_sig, witness_replay=True),
    HarnessSpec('graft', h_graft, [{'variant': v, 'leaf': l} for v in ('left', 'right', 'prioritized') for l in (0, 1, 2)],
                replay=auto_replay(h_graft), signature=_sig, witness_replay=True),
    HarnessSpec('builder', h_builder, _p_builder, replay=auto_replay(h_builder), signature=_sig, witness_replay=True),
    HarnessSpec('pack', h_pack, _p_pack, replay=auto_replay(h_pack), signature=_sig, witness_replay=True, witness_every=4),
]
