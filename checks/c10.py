"""C10 — integer and float encodings are exact inverses at every magnitude (DESIGN.md section 4, C10)."""
from __future__ import annotations
import z3
from sx.harness import HarnessSpec
from sx.core import SymInt, SymBool, mk_bool, zi, to_z3bool, sym_and, sym_or, sym_not
from sx.values import SymBytes, from_bytes_model
from sx import stubs

FUNCTIONS = ['functions:bytes_to_int', 'functions:int_to_bytes', 'functions:uint_to_bytes',
             'functions:bytes_to_bool', 'functions:bytes_to_float', 'functions:float_to_bytes',
             'functions:OP_ADD_INTS', 'functions:OP_SUBTRACT_INTS', 'functions:OP_MULT_INTS',
             'functions:OP_DIV_INTS', 'functions:OP_MOD_INTS', 'functions:OP_DIV_INT', 'functions:OP_MOD_INT',
             'functions:OP_LESS', 'functions:OP_LESS_OR_EQUAL', 'classes:Stack.put', 'classes:Stack.get',
             'classes:Tape.read']

BOUNDS = {
    'quick': {'integer_bytes': 24, 'decoder_bytes': 24, 'arith_operand_bytes': 8,
              'mult': 'two symbolic operands of 2 x 1 bytes; symbolic (<= 8 bytes) x constants'},
    'thorough': {'integer_bytes': 160, 'decoder_bytes': 160, 'arith_operand_bytes': 24,
                 'mult': 'two symbolic operands of <= 2 bytes each; symbolic (<= 24 bytes) x constants'},
}
OUTSIDE = ['integers of more bytes than the stated bound', 'accuracy of libm log2 (contract stub, '
           'validated by concrete evaluation at 2^k+d only)', 'float32 NaN payload bits (one NaN in SMT-LIB FP)']
ASSUMPTIONS = [
    'math.log2 contract: floor(log2(n)) is bitlen(n)-1, or bitlen(n) (one too many) only for n >= 2^40; '
    'the claim holds for every value the contract allows',
    'struct.pack/unpack("!f") is the IEEE-754 binary32 bit-pattern bijection with round-to-nearest-even '
    'narrowing from binary64',
]
EXPLANATION = ('int_to_bytes/bytes_to_int/uint_to_bytes/bytes_to_bool and the integer instructions run '
               'symbolically on unbounded z3 integers; every path ends in unsat queries for round trip, '
               'sign bit, totality and exact arithmetic')
MUST_REACH = ['enc_pos', 'enc_neg', 'dec']


def _chunks(total, step):
    out = []
    lo = 0
    while lo < total:
        out.append((lo, min(total, lo + step)))
        lo += step
    return out


# ------------------------------------------------------------------------------ encoder round trip
def h_encode(c, pkg, lo, hi, neg):
    """n with 256^lo <= |n| < 256^hi (and |n| below the tier bound): encode, decode, sign bit, length"""
    F = pkg.functions
    stubs.CONFIG.log2_max_bits = 8 * hi + 8
    n = c.int('n')
    a = -n if neg else n
    c.assume(a >= (256 ** lo if lo else 0))
    c.assume(a < 256 ** hi)
    if neg:
        c.assume(n < 0)
    try:
        enc = F.int_to_bytes(n)
    except Exception as ex:              # noqa
        c.check('encoder_total', False, raised=repr(ex))
        return
    c.reach('enc_neg' if neg else 'enc_pos')
    k = len(enc)
    c.check('length_positive', k >= 1)
    dec = F.bytes_to_int(enc)
    c.check('roundtrip', dec == n)
    first = enc[0]
    c.check('sign_bit', (first >= 128) == (n < 0))
    # independent decoding (two's complement, big endian) written here, not taken from the code
    u = from_bytes_model(enc, 'big')
    ref = u - 256 ** k if not isinstance(first >= 128, bool) or (first >= 128) else u
    twos = mk_bool(z3.If(to_z3bool(first >= 128), zi(u) - 256 ** k, zi(u)) == zi(n))
    c.check('twos_complement_big_endian', twos)
    if k >= 3:
        # at most one byte longer than the minimal encoding: n does not fit in k-2 bytes
        fits = sym_and(n >= -(2 ** (8 * (k - 2) - 1)), n < 2 ** (8 * (k - 2) - 1))
        c.check('length_at_most_minimal_plus_1', sym_not(fits))
    c.observe(dec=dec, neg=(first >= 128), length_ok=True)


def c_encode(inputs, params):
    import tapescript
    n = inputs['n']
    enc = tapescript.int_to_bytes(n)
    return {'dec': tapescript.bytes_to_int(enc), 'neg': enc[0] >= 128, 'length_ok': True}


def r_encode(inputs, params, obligation):
    import tapescript
    n = inputs['n']
    try:
        enc = tapescript.int_to_bytes(n)
    except Exception as ex:          # noqa
        return {'reproduced': obligation == 'encoder_total', 'raised': repr(ex), 'n': n}
    dec = tapescript.bytes_to_int(enc)
    k = len(enc)
    bad = {
        'roundtrip': dec != n,
        'sign_bit': (enc[0] >= 128) != (n < 0),
        'twos_complement_big_endian': int.from_bytes(enc, 'big', signed=True) != n,
        'length_at_most_minimal_plus_1': k >= 3 and -(2 ** (8 * (k - 2) - 1)) <= n < 2 ** (8 * (k - 2) - 1),
        'length_positive': k < 1,
        'encoder_total': False,
    }
    return {'reproduced': bool(bad.get(obligation)), 'n': n, 'enc': enc.hex(), 'dec': dec}


# ------------------------------------------------------------------------------ decoder totality
def h_decode(c, pkg, k):
    F = pkg.functions
    b = c.bytes('b', k)
    try:
        n = F.bytes_to_int(b)
    except Exception as ex:           # noqa
        c.check('decoder_total', False, raised=repr(ex))
        return
    c.reach('dec')
    c.check('range', sym_and(n >= -(2 ** (8 * k - 1)), n < 2 ** (8 * k - 1)))
    c.check('sign', (n < 0) == (b[0] >= 128))
    u = from_bytes_model(b, 'big')
    c.check('value', n == mk_int_ite(b[0] >= 128, u - 256 ** k, u))
    c.check('bool', F.bytes_to_bool(b) == (u != 0))
    c.observe(n=n)


def mk_int_ite(cnd, a, b):
    from sx.core import sym_ite
    return sym_ite(cnd if isinstance(cnd, SymBool) else bool(cnd), a, b)


def c_decode(inputs, params):
    import tapescript
    return {'n': tapescript.bytes_to_int(inputs['b'])}


def r_decode(inputs, params, obligation):
    import tapescript
    b = inputs['b']
    try:
        n = tapescript.bytes_to_int(b)
    except Exception as ex:          # noqa
        return {'reproduced': obligation == 'decoder_total', 'raised': repr(ex)}
    ref = int.from_bytes(b, 'big', signed=True)
    bad = {'range': not -(2 ** (8 * len(b) - 1)) <= n < 2 ** (8 * len(b) - 1), 'sign': (n < 0) != (b[0] >= 128),
           'value': n != ref, 'bool': tapescript.bytes_to_bool(b) != any(b)}
    return {'reproduced': bool(bad.get(obligation)), 'b': b.hex(), 'n': n}


def h_decode_empty(c, pkg):
    F = pkg.functions
    try:
        F.bytes_to_int(b'')
        c.check('empty_rejected', False)
    except ValueError:
        c.check('empty_rejected', True)
    try:
        F.bytes_to_int('ab')
        c.check('nonbytes_rejected', False)
    except TypeError:
        c.check('nonbytes_rejected', True)
    c.reach('dec_empty')


# ------------------------------------------------------------------------------ uint
def h_uint(c, pkg, lo, hi):
    F = pkg.functions
    stubs.CONFIG.log2_max_bits = 8 * hi + 8
    n = c.int('n')
    c.assume(n >= (256 ** lo if lo else 0))
    c.assume(n < 256 ** hi)
    try:
        enc = F.uint_to_bytes(n)
    except Exception as ex:            # noqa
        c.check('uint_total', False, raised=repr(ex))
        return
    c.check('uint_roundtrip', from_bytes_model(enc, 'big') == n)
    c.observe(val=from_bytes_model(enc, 'big'))


def c_uint(inputs, params):
    import tapescript
    return {'val': int.from_bytes(tapescript.uint_to_bytes(inputs['n']), 'big')}


def r_uint(inputs, params, obligation):
    import tapescript
    n = inputs['n']
    try:
        enc = tapescript.uint_to_bytes(n)
    except Exception as ex:          # noqa
        return {'reproduced': obligation == 'uint_total', 'raised': repr(ex)}
    return {'reproduced': int.from_bytes(enc, 'big') != n, 'n': n, 'enc': enc.hex()}


# ------------------------------------------------------------------------------ integer instructions
ARITH = {
    'OP_ADD_INTS': (b'\x02', lambda a, b: a + b),
    'OP_SUBTRACT_INTS': (b'\x02', lambda a, b: a - b),
    'OP_MULT_INTS': (b'\x02', lambda a, b: a * b),
    'OP_DIV_INTS': (b'', lambda a, b: a // b),
    'OP_MOD_INTS': (b'', lambda a, b: a % b),
    'OP_LESS': (b'', lambda a, b: a < b),
    'OP_LESS_OR_EQUAL': (b'', lambda a, b: a <= b),
}


def _pyfloordiv(a, b):
    # reference semantics of Python // and % on z3 integers (floor division)
    q = a / b
    r = a % b
    qf = z3.If(z3.And(b < 0, r != 0), q - 1, q)
    rf = z3.If(z3.And(b < 0, r != 0), r + b, r)
    return qf, rf


def h_arith(c, pkg, op, ka, kb, bconst=None):
    """run one integer instruction on the encodings of symbolic a (ka bytes), b (kb bytes): `a` is on top"""
    F = pkg.functions
    stubs.CONFIG.log2_max_bits = 8 * (ka + kb) + 16
    ab = c.bytes('a', ka)
    bb = c.bytes('b', kb) if bconst is None else c.input('b', int(bconst).to_bytes(kb, 'big', signed=True))
    a = from_bytes_model(ab, 'big', signed=True)
    b = from_bytes_model(bb, 'big', signed=True)
    operand, _ = ARITH[op]
    tape = pkg.classes.Tape(operand)
    stack = pkg.classes.Stack()
    stack.put(bb)
    stack.put(ab)
    az, bz = zi(a), zi(b)
    try:
        getattr(F, op)(tape, stack, {})
    except ZeroDivisionError:
        c.check('zero_division_only_for_zero', b == 0)
        c.reach('arith_zero')
        return
    except Exception as ex:            # noqa
        c.check('arith_total', False, raised=repr(ex))
        return
    c.check('one_result', len(stack) == 1)
    out = stack.get()
    if op in ('OP_LESS', 'OP_LESS_OR_EQUAL'):
        want = (az < bz) if op == 'OP_LESS' else (az <= bz)
        c.check('comparison_exact', sym_and(len(out) == 1,
                                            mk_bool(zi(out[0]) == z3.If(want, 255, 0))))
        c.observe(out=out)
        return
    if op in ('OP_DIV_INTS', 'OP_MOD_INTS'):
        c.check('divisor_nonzero_here', b != 0)
        c.assume(b != 0)
        q, r = _pyfloordiv(az, bz)
        want = q if op == 'OP_DIV_INTS' else r
    else:
        want = {'OP_ADD_INTS': az + bz, 'OP_SUBTRACT_INTS': az - bz, 'OP_MULT_INTS': az * bz}[op]
    got = F.bytes_to_int(out)
    c.check('arith_exact', mk_bool(zi(got) == want))
    c.check('result_sign_bit', (out[0] >= 128) == mk_bool(want < 0))
    c.reach('arith')
    c.observe(value=got)


def _real_arith(op, a, b):
    import tapescript
    from tapescript import functions as RF
    operand, _ = ARITH[op]
    tape = tapescript.Tape(operand)
    stack = tapescript.Stack()
    stack.put(b)
    stack.put(a)
    getattr(RF, op)(tape, stack, {})
    return stack.get()


def c_arith(inputs, params):
    op = params['op']
    try:
        out = _real_arith(op, inputs['a'], inputs['b'])
    except ZeroDivisionError:
        return {}
    if op in ('OP_LESS', 'OP_LESS_OR_EQUAL'):
        return {'out': out}
    return {'value': int.from_bytes(out, 'big', signed=True)}


def r_arith(inputs, params, obligation):
    op = params['op']
    a = int.from_bytes(inputs['a'], 'big', signed=True)
    b = int.from_bytes(inputs['b'], 'big', signed=True)
    try:
        out = _real_arith(op, inputs['a'], inputs['b'])
    except ZeroDivisionError:
        return {'reproduced': obligation == 'zero_division_only_for_zero' and b != 0}
    except Exception as ex:            # noqa
        return {'reproduced': obligation == 'arith_total', 'raised': repr(ex)}
    want = ARITH[op][1](a, b) if not (op in ('OP_DIV_INTS', 'OP_MOD_INTS') and b == 0) else None
    if op in ('OP_LESS', 'OP_LESS_OR_EQUAL'):
        return {'reproduced': out != (b'\xff' if want else b'\x00'), 'a': a, 'b': b, 'out': out.hex()}
    got = int.from_bytes(out, 'big', signed=True)
    return {'reproduced': got != want or (out[0] >= 128) != (want < 0), 'a': a, 'b': b, 'got': got,
            'want': want}


def h_arith_tape(c, pkg, op, ka, kb):
    """OP_DIV_INT / OP_MOD_INT: divisor on the tape (size byte + value), dividend on the stack"""
    F = pkg.functions
    stubs.CONFIG.log2_max_bits = 8 * (ka + kb) + 16
    ab = c.bytes('a', ka)
    bb = c.bytes('b', kb)
    a = zi(from_bytes_model(ab, 'big', signed=True))
    b = zi(from_bytes_model(bb, 'big', signed=True))
    tape = pkg.classes.Tape(bytes([kb]) + bb)
    stack = pkg.classes.Stack()
    stack.put(ab)
    try:
        getattr(F, op)(tape, stack, {})
    except ZeroDivisionError:
        c.check('zero_division_only_for_zero', mk_bool(b == 0))
        return
    except Exception as ex:            # noqa
        c.check('arith_total', False, raised=repr(ex))
        return
    c.assume(mk_bool(b != 0))
    q, r = _pyfloordiv(a, b)
    out = stack.get()
    got = F.bytes_to_int(out)
    c.check('arith_exact', mk_bool(zi(got) == (q if op == 'OP_DIV_INT' else r)))
    c.check('pointer_at_end', tape.pointer == 1 + kb)
    c.reach('arith_tape')
    c.observe(value=got)


def c_arith_tape(inputs, params):
    import tapescript
    from tapescript import functions as RF
    tape = tapescript.Tape(bytes([len(inputs['b'])]) + inputs['b'])
    stack = tapescript.Stack()
    stack.put(inputs['a'])
    try:
        getattr(RF, params['op'])(tape, stack, {})
    except ZeroDivisionError:
        return {}
    return {'value': int.from_bytes(stack.get(), 'big', signed=True)}


def r_arith_tape(inputs, params, obligation):
    a = int.from_bytes(inputs['a'], 'big', signed=True)
    b = int.from_bytes(inputs['b'], 'big', signed=True)
    got = c_arith_tape(inputs, params)
    if not got:
        return {'reproduced': obligation == 'zero_division_only_for_zero' and b != 0}
    want = a // b if params['op'] == 'OP_DIV_INT' else a % b
    return {'reproduced': got['value'] != want, 'a': a, 'b': b, 'got': got['value'], 'want': want}


# ------------------------------------------------------------------------------ log2 contract (sampling)
def h_log2_contract(c, pkg, kmax):
    """NOT a solver step: concrete validation of the math.log2 contract assumed by the stub, at
    2^k + d, |d| <= 3 (labelled as sampling in the evidence)"""
    import math
    bad = []
    for k in range(1, kmax + 1):
        for d in (-3, -2, -1, 0, 1, 2, 3):
            n = 2 ** k + d
            if n < 1:
                continue
            fl = math.floor(math.log2(n))
            bl = n.bit_length()
            ok = fl == bl - 1 or (fl == bl and n >= 2 ** 40)
            if not ok:
                bad.append((k, d, fl, bl))
    c.check('log2_contract_holds_on_samples', not bad, bad=bad[:5])
    c.reach('log2_contract')


def _params_encode(tier):
    B = BOUNDS[tier]['integer_bytes']
    step = 2 if tier == 'quick' else 4
    out = []
    for lo, hi in _chunks(B, step):
        out.append({'lo': lo, 'hi': hi, 'neg': False})
        out.append({'lo': lo, 'hi': hi, 'neg': True})
    return out


def _params_decode(tier):
    B = BOUNDS[tier]['decoder_bytes']
    ks = list(range(1, B + 1)) if tier == 'quick' else list(range(1, 33)) + list(range(36, B + 1, 4))
    return [{'k': k} for k in ks]


def _params_uint(tier):
    B = BOUNDS[tier]['integer_bytes']
    return [{'lo': lo, 'hi': hi} for lo, hi in _chunks(B, 4 if tier == 'quick' else 8)]


def _params_arith(tier):
    K = BOUNDS[tier]['arith_operand_bytes']
    sizes = [1, 2, K] if tier == 'quick' else [1, 2, 3, 8, K]
    out = []
    for op in ARITH:
        if op == 'OP_MULT_INTS':
            # symbolic x symbolic products are non-linear: 2x2 bytes needs minutes and is kept for the thorough tier
            ss = [(1, 1), (2, 1)] if tier == 'quick' else [(1, 1), (2, 1), (2, 2)]
            for ka in ((4, 8) if tier == 'quick' else (4, 8, 16, 24)):
                for const in (3, -7, 255, 2 ** 31 - 1, -(2 ** 31)):
                    out.append({'op': op, 'ka': ka, 'kb': 5, 'bconst': const})
        elif op in ('OP_DIV_INTS', 'OP_MOD_INTS'):
            ss = [(1, 1), (2, 1), (2, 2), (3, 1)] if tier == 'quick' else [(1, 1), (2, 1), (2, 2), (4, 2), (4, 4), (8, 3)]
        else:
            ss = [(a, b) for a in sizes for b in sizes]
        for ka, kb in ss:
            out.append({'op': op, 'ka': ka, 'kb': kb})
    return out


def _params_arith_tape(tier):
    ss = [(1, 1), (2, 1), (2, 2), (3, 1)] if tier == 'quick' else [(1, 1), (2, 1), (2, 2), (4, 2), (4, 4), (8, 3)]
    return [{'op': op, 'ka': a, 'kb': b} for op in ('OP_DIV_INT', 'OP_MOD_INT') for a, b in ss]


HARNESSES = [
    HarnessSpec('encode', h_encode, _params_encode, replay=r_encode, concrete=c_encode, witness_every=7),
    HarnessSpec('decode', h_decode, _params_decode, replay=r_decode, concrete=c_decode),
    HarnessSpec('decode_empty', h_decode_empty),
    HarnessSpec('uint', h_uint, _params_uint, replay=r_uint, concrete=c_uint, witness_every=5),
    HarnessSpec('arith', h_arith, _params_arith, replay=r_arith, concrete=c_arith, witness_every=3),
    HarnessSpec('arith_tape', h_arith_tape, _params_arith_tape, replay=r_arith_tape, concrete=c_arith_tape,
                witness_every=3),
    HarnessSpec('log2_contract_samples', h_log2_contract,
                lambda tier: [{'kmax': 2048 if tier == 'quick' else 16384}]),
]
