"""helpers shared by the property checks"""
from __future__ import annotations
import contextlib
import z3
from sx.core import SymInt, SymBool, mk_bool, zi, to_z3bool
from sx.containers import SDict


def real():
    """the unmodified package (concrete replays)"""
    import tapescript
    return tapescript


@contextlib.contextmanager
def pinned_clock(now):
    """run the real package with time() pinned (functions.time and tools.time are module globals)"""
    import tapescript.functions as RF
    import tapescript.tools as RT
    old = (RF.time, RT.time)
    RF.time = lambda: now
    RT.time = lambda: now
    try:
        yield
    finally:
        RF.time, RT.time = old


@contextlib.contextmanager
def pinned_random(inputs):
    """run the real package with functions.token_bytes pinned to the model's random stream: the k-th call returns
    inputs['rand<k>'] (zero-padded / cut to the requested length); `state['k'] = 0` restarts the stream (oracle runs)"""
    import tapescript.functions as RF
    old = RF.token_bytes
    state = {'k': 0}

    def token_bytes(count=32):
        v = inputs.get(f"rand{state['k']}", b'')
        v = bytes(v) if isinstance(v, (bytes, bytearray)) else b''
        state['k'] += 1
        return (v + bytes(count))[:count]
    RF.token_bytes = token_bytes
    try:
        yield state
    finally:
        RF.token_bytes = old


def outcome_of(fn, *a, **kw):
    """('ok', value) | ('raise', exception)  — catches the package's BaseException-derived errors too"""
    from sx.core import SxError
    try:
        return ('ok', fn(*a, **kw))
    except SxError:
        raise
    except BaseException as e:       # noqa
        return ('raise', e)


def exc_name(e):
    return type(e).__name__


def stack_list(stack):
    return list(stack.deque.items) if hasattr(stack.deque, 'items') else list(stack.deque)


def top_is(stack, val):
    """stack non-empty and top item == val (bool | SymBool)"""
    if len(stack) == 0:
        return False
    return stack.peek() == val
