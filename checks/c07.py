"""C07 — stack, item-size, call-depth, loop and tape limits hold at every step."""
from __future__ import annotations
import z3
from sx.harness import HarnessSpec
from sx.core import SymInt, SymBool, mk_bool, zi, to_z3bool, sym_and, sym_or, sym_not
from sx.values import SymBytes, mk_bytes, items_of, bytes_eq
from sx.sxbuiltins import sx_len
from sx.containers import SDict
from sx import stubs
from . import vmstep
from .common import outcome_of, exc_name

FUNCTIONS = ['classes:Stack.put', 'classes:Stack.get', 'classes:Stack.peek', 'classes:Tape.read',
             'classes:Tape.move_pointer', 'functions:run_tape', 'functions:OP_CALL', 'functions:OP_EVAL',
             'functions:OP_LOOP', 'functions:OP_RANDOM', 'functions:OP_SHAKE256', 'functions:OP_COPY',
             'functions:OP_XOR', 'functions:OP_OR', 'functions:OP_AND', 'functions:OP_CONCAT', 'functions:OP_PUSH1',
             'functions:OP_PUSH2', 'functions:OP_IF', 'functions:OP_IF_ELSE', 'functions:OP_TRY_EXCEPT',
             'functions:OP_DEF', 'functions:OP_SWAP', 'functions:OP_REVERSE', 'functions:NOP',
             'functions:OP_CHECK_TRANSFER', 'functions:OP_INVOKE', 'functions:OP_READ_CACHE']
BOUNDS = {'quick': {'stack_shapes': [list(s) for s in vmstep.SHAPES_QUICK], 'tape_operand_bytes': 6,
                    'limits': 'max_items, max_item_size symbolic integers >= 1; callstack count/limit symbolic in 0..3'},
          'thorough': {'stack_shapes': [list(s) for s in vmstep.SHAPES_THOROUGH], 'tape_operand_bytes': 6,
                       'limits': 'max_items, max_item_size symbolic integers >= 1; callstack count/limit symbolic in 0..3'}}
OUTSIDE = ['CPython recursion limit and real memory use (the allocation clause is a ghost assertion on requested sizes)',
           'stacks deeper / items longer than the listed shapes (instructions index from the top; deeper items are untouched)',
           'tapes with more than 6 operand bytes after the opcode', 'call-stack limits above 3 in the symbolic loop unrolling '
           '(the per-iteration ranking argument does not depend on the value)']
ASSUMPTIONS = ['nested interpreter runs (bodies of IF/ELSE/TRY/EXCEPT/LOOP/CALL/EVAL) are summarised: they may pop/push '
               'within the limits, write the cache, return or raise (induction over nesting; the summary itself respects '
               'the invariant because it uses Stack.put)',
               'token_bytes / hash digest stubs record the requested size before producing the result',
               'UTF-8 instructions only on ASCII input']
EXPLANATION = ('P1: from an arbitrary state satisfying the invariant (stack within symbolic limits, pointer inside the tape, '
               'call count within the limit) one instruction of every opcode preserves the invariant or raises, never '
               'drops an item silently, never moves the pointer backwards or past the end, and requests no allocation '
               'larger than 255*max_item_size')
MUST_REACH = ['ok', 'raise', 'put_full', 'item_too_large', 'read_past_end', 'callstack_exceeded', 'loop_limit']


def h_step(c, pkg, op, lens, utf8=False):
    st, r, summ = vmstep.generic_step(c, pkg, op, lens, ascii_only=not utf8)
    E = pkg.errors
    stack, tape = st.stack, st.tape
    c.reach('ok' if r[0] == 'ok' else 'raise')
    items = vmstep.stack_items(stack)
    # (i) invariant on the post-state, also when the step raised
    c.check('stack_within_max_items', len(items) <= st.max_items)
    for it in items:
        c.check('item_within_max_item_size', sx_len(it) <= st.max_item_size)
        break_on = False
    if len(items) > 1:
        c.check('items_within_max_item_size', sym_and(*[sx_len(it) <= st.max_item_size for it in items]))
    # (ii) no silent drop
    c.check('no_silent_drop', not any(ev[0] == 'DEQUE_DROP' for ev in eng_log()))
    # (iii) pointer monotone and inside the tape
    c.check('pointer_not_backwards', tape.pointer >= st.pre_pointer)
    c.check('pointer_inside_tape', tape.pointer <= len(tape.data))
    # call depth
    c.check('callstack_count_within_limit', tape.callstack_count <= tape.callstack_limit)
    for b in summ.bodies:
        c.check('nested_count_within_limit', b.callstack_count <= b.callstack_limit)
    name = op if isinstance(op, str) else 'NOP'
    if name in ('OP_CALL', 'OP_EVAL') and summ.bodies:
        c.check('nested_call_spends_budget', summ.bodies[0].callstack_count == st.pre_count + 1)
    elif name in vmstep.NESTING_OPS:
        # every other nested body (IF / ELSE / TRY / EXCEPT / LOOP / MERKLEVAL / TAPROOT) carries the budget already spent
        for b in summ.bodies:
            c.check('nested_body_carries_spent_budget', b.callstack_count >= st.pre_count, body=b.k, op=name)
            c.check('nested_body_carries_limit', b.callstack_limit == tape.callstack_limit, body=b.k, op=name)
    if name == 'OP_LOOP':
        c.check('loop_iterations_within_limit', len(summ.bodies) <= tape.callstack_limit)
    # (iv) error classes
    if r[0] == 'raise':
        e = r[1]
        msg = str(e)
        c.check('no_interpreter_level_failure',
                not isinstance(e, (MemoryError, RecursionError, SystemError, AssertionError)), got=repr(e))
        if 'full Stack' in msg:
            c.reach('put_full')
        if 'size too large' in msg:
            c.reach('item_too_large')
        if 'cannot read that many' in msg:
            c.reach('read_past_end')
        if 'callstack limit exceeded' in msg:
            c.reach('callstack_exceeded')
        if 'OP_LOOP limit exceeded' in msg:
            c.reach('loop_limit')
    # (v) requested allocation sizes
    for what, size in stubs.CONFIG.alloc_log:
        if size is None:
            continue
        c.check('allocation_bounded_by_limits', sym_and(size >= 0, size <= 255 * st.max_item_size),
                what=what, size=size)
    vmstep.witness_observables(c, op, st, r, summ)


def eng_log():
    from sx.core import eng
    return eng().log


# ------------------------------------------------------------------------------ concrete side
def r_step(inputs, params, obligation):
    res = vmstep.concrete_generic_step(inputs, params)
    r, stack, tape, allocs, mi, ms = res['r'], res['stack'], res['tape'], res['allocs'], res['max_items'], res['max_item_size']
    bodies = res['summ'].bodies
    name = params['op'] if isinstance(params['op'], str) else 'NOP'
    items = list(stack.deque)
    bad = {
        'callstack_count_within_limit': tape.callstack_count > tape.callstack_limit,
        'nested_count_within_limit': any(b.callstack_count > b.callstack_limit for b in bodies),
        'nested_call_spends_budget': name in ('OP_CALL', 'OP_EVAL') and bool(bodies) and
        bodies[0].callstack_count != res['pre_count'] + 1,
        'nested_body_carries_spent_budget': name not in ('OP_CALL', 'OP_EVAL') and
        any(b.callstack_count < res['pre_count'] for b in bodies),
        'nested_body_carries_limit': name not in ('OP_CALL', 'OP_EVAL') and
        any(b.callstack_limit != tape.callstack_limit for b in bodies),
        'loop_iterations_within_limit': name == 'OP_LOOP' and len(bodies) > tape.callstack_limit,
        'stack_within_max_items': len(items) > mi,
        'item_within_max_item_size': any(len(x) > ms for x in items),
        'items_within_max_item_size': any(len(x) > ms for x in items),
        'pointer_not_backwards': tape.pointer < 0,
        'pointer_inside_tape': tape.pointer > len(tape.data),
        'allocation_bounded_by_limits': any(n < 0 or n > 255 * ms for n in allocs),
        'no_interpreter_level_failure': r[0] == 'raise' and isinstance(r[1], (MemoryError, RecursionError, SystemError,
                                                                               AssertionError)),
        'no_silent_drop': res['drops'] > 0,
    }
    return {'reproduced': bool(bad.get(obligation)), 'outcome': repr(r)[:200], 'allocs': allocs[:5],
            'max_items': mi, 'max_item_size': ms, 'stack_lens': [len(x) for x in items]}


def _sig(v):
    return {'harness': v['harness'], 'obligation': v['obligation'], 'op': v['params'].get('op')}


def _params(tier):
    out = vmstep.generic_params(tier)
    # the UTF-8 instructions on arbitrary bytes (multi-byte sequences: characters are not bytes)
    for op in ('OP_CONCAT_STR', 'OP_SPLIT_STR'):
        shapes = ([[2, 2], [4, 2], [3, 3]] if op == 'OP_CONCAT_STR' else [[2, 1], [4, 1], [3, 1]])
        if tier != 'quick':
            shapes = shapes + ([[4, 4], [2, 3]] if op == 'OP_CONCAT_STR' else [[6, 1]])
        out += [{'op': op, 'lens': sh, 'utf8': True} for sh in shapes]
    return out


HARNESSES = [
    HarnessSpec('step', h_step, _params, replay=r_step, signature=_sig,
                concrete=vmstep.concrete_observables, witness_every=3),
]
