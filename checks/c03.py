"""C03 — multisig passes only with m valid signatures from m different listed keys."""
from __future__ import annotations
import itertools
import z3
from sx.harness import HarnessSpec
from sx.core import SymInt, SymBool, mk_bool, zi, to_z3bool, sym_and, sym_or, sym_not
from sx.values import SymBytes, mk_bytes, items_of, bytes_eq
from sx.containers import SDict
from sx import stubs
from .common import outcome_of, exc_name
from .c02 import ref_message, _subset, _ref_message_c

FUNCTIONS = ['functions:OP_CHECK_MULTISIG', 'functions:OP_CHECK_MULTISIG_VERIFY', 'functions:OP_CHECK_SIG',
             'functions:OP_GET_MESSAGE', 'functions:OP_VERIFY', 'functions:bytes_to_bool', 'tools:make_multisig_lock',
             'tools:_pubkey', 'tools:Script.from_src', 'parsing:compile_script', 'parsing:_get_OP_CHECK_MULTISIG_args',
             'parsing:_get_OP_PUSH_args', 'classes:Stack.put', 'classes:Stack.get', 'classes:Tape.read']
BOUNDS = {'quick': {'n_keys': '1..4', 'm_sigs': '0..n', 'signature_flag_bytes': 'symbolic for n <= 2 and for n = 3 with m <= 2, absent (64-byte signatures) otherwise',
                    'sigfields': 'sigfield1 (1 byte), sigfield2 (2 bytes), symbolic contents'},
          'thorough': {'n_keys': '1..5', 'm_sigs': '0..n', 'signature_flag_bytes': 'symbolic for n <= 4, absent for n = 5',
                       'sigfields': 'sigfield1 (1 byte), sigfield2 (2 bytes), sigfield5 (1 byte), symbolic contents'}}
OUTSIDE = ['m, n > 5', 'Ed25519 itself (signature oracle)', 'malformed items other than wrong lengths']
ASSUMPTIONS = [
    'signature oracle for libsodium: valid(key, message, signature) uninterpreted',
    'the n listed keys are pairwise distinct (as the property states)',
    'a signature string verifies under at most one of the listed keys (valid(k,m,s) and valid(k2,m2,s) -> k = k2); '
    'without it greedy first-match assignment differs from maximum matching only in models no real scheme has',
]
EXPLANATION = ('OP_CHECK_MULTISIG(_VERIFY) over the real OP_CHECK_SIG is executed symbolically with the full '
               'valid(key_j, message(flag_i), sig_i) matrix left to the solver (duplicates, outsiders, flag variants, '
               'two signatures by one key are all models); the verdict is compared with "an injective assignment of '
               'the m signatures to valid keys exists" by an unsat query per path')
MUST_REACH = ['ms_true', 'ms_false', 'ms_disallowed', 'ms_lock']

_FIELDS = {'q': {0: 1, 1: 2}, 't': {0: 1, 1: 2, 4: 1}}


def _setup(c, pkg, n, m, flags, fset):
    cache = SDict()
    fields = {}
    for i, ln in _FIELDS[fset].items():
        fields[i] = c.bytes(f'sigfield{i + 1}', ln)
        cache[f'sigfield{i + 1}'] = fields[i]
    del cache.wlog[:]
    keys = [c.bytes(f'key{j}', 32) for j in range(n)]
    sigs = [c.bytes(f'sig{i}', 65 if flags else 64) for i in range(m)]
    for a, b in itertools.combinations(keys, 2):
        c.assume(sym_not(bytes_eq(a, b)))
    return cache, fields, keys, sigs


def _matrix(c, fields, keys, sigs, flags):
    """V[i][j] = valid(key_j, message selected by sig_i's flag, first 64 bytes of sig_i) as z3 terms;
    adds the at-most-one-key assumption"""
    V = []
    for i, s in enumerate(sigs):
        flag = s[64] if flags else 0
        msg = ref_message(fields, flag)
        row = [stubs.valid_term(k, msg, s[:64]) for k in keys]
        V.append(row)
    return V


def h_multisig(c, pkg, n, m, flags, verify, fset='q', split=None):
    F, C = pkg.functions, pkg.classes
    cache, fields, keys, sigs = _setup(c, pkg, n, m, flags, fset)
    if split is not None:
        # job splitting only: this job covers the flag bytes of sig0 / sig1 whose two low bits are split[k]
        for i, v in enumerate(split):
            c.assume((sigs[i][64] & 3) == v)
    allowed = c.byte('allowed')
    below = c.bytes('below', 1)
    tape = C.Tape(mk_bytes([allowed, m, n]), plugins=SDict({'signature_extensions': []}))
    stack = C.Stack()
    stack.put(below)
    for s in sigs:
        stack.put(s)
    for k in keys:
        stack.put(k)
    op = F.OP_CHECK_MULTISIG_VERIFY if verify else F.OP_CHECK_MULTISIG
    r = outcome_of(op, tape, stack, cache)
    # the oracle side (forks on the symbolic flag bits through ref_message, decided already on this path)
    V = _matrix(c, fields, keys, sigs, flags)
    for i in range(m):
        for j1, j2 in itertools.combinations(range(n), 2):
            c.assume(mk_bool(z3.Not(z3.And(V[i][j1], V[i][j2]))))
    # identical signature strings have identical rows (function congruence) - nothing to add.
    c.input('V', [[mk_bool(x) for x in row] for row in V])
    permitted = sym_and(*[_subset(s[64], allowed) for s in sigs]) if flags and m else True
    inj = [z3.And(*[V[i][p[i]] for i in range(m)]) if m else z3.BoolVal(True)
           for p in itertools.permutations(range(n), m)]
    matching = mk_bool(z3.Or(*inj)) if inj else False
    c.check('operands_consumed', tape.pointer == 3)
    c.check('cache_not_written', len(cache.wlog) == 0)
    if r[0] == 'raise':
        e = r[1]
        if exc_name(e) == 'ScriptExecutionError' and 'disallowed sigflag' in str(e):
            c.check('disallowed_error_only_if_some_flag_not_permitted', sym_not(permitted))
            c.reach('ms_disallowed')
            c.observe(outcome='error')
            return
        if verify and exc_name(e) == 'ScriptExecutionError' and 'OP_VERIFY' in str(e):
            c.check('all_flags_permitted_here', permitted)
            c.check('verify_form_raises_only_without_matching', sym_not(matching))
            c.check('stack_below_untouched', len(stack) == 1 and bytes_eq(stack.peek(), below))
            c.reach('ms_false')
            c.observe(outcome=False)
            return
        c.check('no_other_error', False, got=repr(r))
        return
    c.check('all_flags_permitted_here', permitted)
    if verify:
        c.check('verify_form_passes_only_with_matching', matching)
        c.check('stack_below_untouched', len(stack) == 1 and bytes_eq(stack.peek(), below))
        c.reach('ms_true')
        c.observe(outcome=True)
        return
    c.check('stack_shape', len(stack) == 2 and bytes_eq(stack.peek(1), below))
    out = stack.peek()
    c.check('true_iff_injective_assignment_exists',
            sym_or(sym_and(matching, out == b'\xff'), sym_and(sym_not(matching), out == b'\x00')))
    t = bool(out == b'\xff')
    c.reach('ms_true' if t else 'ms_false')
    c.observe(outcome=t)


# concrete side ---------------------------------------------------------------------------------
def _seed(i):
    return bytes([i + 1]) * 32


def _realise(inputs, params):
    """real keys and signatures realising the model's validity matrix: sig_i is a real signature by key_j
    if V[i][j], by an outsider otherwise; equal signature strings in the model stay equal"""
    from nacl.signing import SigningKey
    n, m, flags = params['n'], params['m'], params['flags']
    fields = {i: inputs[f'sigfield{i + 1}'] for i in _FIELDS[params.get('fset', 'q')]}
    sks = [SigningKey(_seed(j)) for j in range(n)]
    outsider = SigningKey(_seed(77))
    keys = [bytes(sk.verify_key) for sk in sks]
    V = inputs['V']
    sigs = []
    made = {}
    for i in range(m):
        ms = inputs[f'sig{i}']
        if ms in made:
            sigs.append(made[ms])
            continue
        flag = ms[64] if flags else 0
        msg = _ref_message_c(fields, flag)
        if not any(ms) and not any(V[i]):
            # an all-zero item (a "null placeholder") stays what it is: code may test for it, and it verifies under no key
            made[ms] = ms
            sigs.append(ms)
            continue
        signer = next((sks[j] for j in range(n) if V[i][j]), outsider)
        s = signer.sign(msg).signature + (bytes([flag]) if flags else b'')
        made[ms] = s
        sigs.append(s)
    return fields, keys, sigs


def _oracle(fields, keys, sigs, allowed):
    from nacl.signing import VerifyKey
    rows = []
    for s in sigs:
        if len(s) not in (64, 65):
            return 'error'
        flag = s[64] if len(s) == 65 else 0
        if flag & ~allowed & 0xff:
            return 'error'
        msg = _ref_message_c(fields, flag)
        row = []
        for k in keys:
            try:
                VerifyKey(k).verify(msg, s[:64])
                row.append(True)
            except Exception:
                row.append(False)
        rows.append(row)
    m, n = len(sigs), len(keys)
    return any(all(rows[i][p[i]] for i in range(m)) for p in itertools.permutations(range(n), m))


def _real_run(fields, keys, sigs, allowed, verify, below=b'\x07'):
    import tapescript
    from tapescript import functions as RF
    cache = {f'sigfield{i + 1}': v for i, v in fields.items()}
    tape = tapescript.Tape(bytes([allowed, len(sigs), len(keys)]), plugins={'signature_extensions': []})
    stack = tapescript.Stack()
    stack.put(below)
    for s in sigs:
        stack.put(s)
    for k in keys:
        stack.put(k)
    op = RF.OP_CHECK_MULTISIG_VERIFY if verify else RF.OP_CHECK_MULTISIG
    r = outcome_of(op, tape, stack, cache)
    if r[0] == 'raise':
        if verify and 'OP_VERIFY' in str(r[1]):
            return False, stack
        return 'error', stack
    if verify:
        return True, stack
    top = stack.list()[-1]
    return (True if top == b'\xff' else False if top == b'\x00' else 'noncanonical'), stack


def c_multisig(inputs, params):
    fields, keys, sigs = _realise(inputs, params)
    got, _ = _real_run(fields, keys, sigs, inputs['allowed'], params['verify'])
    return {'outcome': got}


def r_multisig(inputs, params, obligation):
    fields, keys, sigs = _realise(inputs, params)
    got, stack = _real_run(fields, keys, sigs, inputs['allowed'], params['verify'])
    want = _oracle(fields, keys, sigs, inputs['allowed'])
    return {'reproduced': got != want, 'got': repr(got), 'want': repr(want), 'keys': [k.hex() for k in keys],
            'sigs': [s.hex() for s in sigs], 'allowed': inputs['allowed']}


# ------------------------------------------------------------------------------ make_multisig_lock
def h_lock(c, pkg, n, m):
    T = pkg.tools
    keys = [c.bytes(f'key{j}', 32) for j in range(n)]
    for a, b in itertools.combinations(keys, 2):
        c.assume(sym_not(bytes_eq(a, b)))
    r = outcome_of(T.make_multisig_lock, keys, m, '03')
    if m > n:
        c.check('quorum_larger_than_keys_rejected', r[0] == 'raise' and exc_name(r[1]) == 'ValueError')
        c.reach('ms_lock_rejected')
        return
    c.check('no_error', r[0] == 'ok', got=repr(r))
    if r[0] != 'ok':
        return
    lock = r[1].bytes
    want = b''
    for k in keys:
        want = want + b'\x03\x20' + k
    opcode = pkg.functions.opcodes_inverse['OP_CHECK_MULTISIG'][0]
    want = want + bytes([opcode, 3, m, n])
    c.check('lock_is_pushes_of_keys_then_check_multisig', len(lock) == len(want) and bytes_eq(lock, want))
    c.reach('ms_lock')
    c.observe(lock=lock)


def c_lock(inputs, params):
    import tapescript
    keys = [inputs[f'key{j}'] for j in range(params['n'])]
    return {'lock': tapescript.make_multisig_lock(keys, params['m'], '03').bytes}


def r_lock(inputs, params, obligation):
    import tapescript
    from tapescript.functions import opcodes_inverse
    keys = [inputs[f'key{j}'] for j in range(params['n'])]
    r = outcome_of(tapescript.make_multisig_lock, keys, params['m'], '03')
    if params['m'] > params['n']:
        return {'reproduced': r[0] != 'raise'}
    if r[0] != 'ok':
        return {'reproduced': True, 'r': repr(r)}
    want = b''.join(b'\x03\x20' + k for k in keys) + bytes([opcodes_inverse['OP_CHECK_MULTISIG'][0], 3,
                                                              params['m'], params['n']])
    return {'reproduced': r[1].bytes != want, 'lock': r[1].bytes.hex()}


def _p_ms(tier):
    out = []
    nmax = 4 if tier == 'quick' else 5
    for n in range(1, nmax + 1):
        for m in range(0, n + 1):
            if tier == 'quick':
                flagged = [False, True] if (n <= 2 or (n == 3 and m <= 2)) else [False]
            else:
                flagged = [False, True] if n <= 4 else [False]
            for fl in flagged:
                for verify in (False, True):
                    if verify and n > 2:
                        continue
                    base = {'n': n, 'm': m, 'flags': fl, 'verify': verify,
                            'fset': 'q' if tier == 'quick' or n >= 3 else 't'}
                    if fl and m >= 3:
                        for a in range(4):
                            for b in range(4):
                                out.append({**base, 'split': [a, b]})
                    elif fl and m >= 2 and n >= 3:
                        for a in range(4):
                            out.append({**base, 'split': [a]})
                    else:
                        out.append(base)
    # more signatures than keys can never pass
    out.append({'n': 1, 'm': 2, 'flags': False, 'verify': False, 'fset': 'q'})
    out.append({'n': 2, 'm': 3, 'flags': False, 'verify': False, 'fset': 'q'})
    return out


def _p_lock(tier):
    return [{'n': n, 'm': m} for n in (1, 2, 3) for m in range(0, n + 2)]


HARNESSES = [
    HarnessSpec('multisig', h_multisig, _p_ms, replay=r_multisig, concrete=c_multisig, witness_every=7),
    HarnessSpec('lock', h_lock, _p_lock, replay=r_lock, concrete=c_lock),
]
