"""C02 — signature instructions verify exactly the flag-selected message."""
from __future__ import annotations
import itertools
import z3
from sx.harness import HarnessSpec
from sx.core import SymInt, SymBool, mk_bool, zi, to_z3bool, sym_and, sym_or, sym_not
from sx.values import SymBytes, mk_bytes, items_of, bytes_eq
from sx.containers import SDict
from sx import stubs
from .common import outcome_of, exc_name

FUNCTIONS = ['functions:OP_CHECK_SIG', 'functions:OP_CHECK_SIG_VERIFY', 'functions:OP_GET_MESSAGE',
             'functions:OP_SIGN', 'functions:OP_SIGN_STACK', 'functions:OP_CHECK_SIG_STACK', 'functions:OP_VERIFY',
             'functions:OP_TRUE', 'functions:OP_FALSE', 'functions:run_sig_extensions', 'functions:run_plugins',
             'functions:bytes_to_bool', 'classes:Stack.put', 'classes:Stack.get', 'classes:Tape.read']
BOUNDS = {'quick': {'sigfield_lengths': 'profile (1,2,1,2,1,2,1,2) for all presence subsets; (0,1,3,0,2,1,0,1) and the VERIFY / 64-byte / sign-then-check variants for a subset of the presence patterns of fields 1-4 (all in the thorough tier)', 'flag_byte': 'all 256 (symbolic)',
                    'allowed_operand': 'all 256 (symbolic)', 'field_presence': 'all 256 subsets',
                    'key_sig_lengths': '32/64, 32/65 and the error lengths 31,33 / 0,63,66'},
          'thorough': {'sigfield_lengths': 'profiles (1,2,1,2,1,2,1,2), (0,1,3,0,2,1,0,1), (4,4,4,4,4,4,4,4), (8,1,5,2,7,3,6,4)',
                       'flag_byte': 'all 256 (symbolic)', 'allowed_operand': 'all 256 (symbolic)',
                       'field_presence': 'all 256 subsets', 'key_sig_lengths': '32/64, 32/65 and the error lengths'}}
OUTSIDE = ['sigfield lengths outside the stated profiles (contents are symbolic; only the lengths are fixed per profile)',
           'Ed25519 itself: libsodium verify/sign are replaced by the signature oracle; single-bit corruption clauses '
           'follow from exactness of the (key, message, signature) triple handed to the oracle and are not enumerated']
ASSUMPTIONS = ['signature oracle: VerifyKey(k).verify(m, s) succeeds iff valid(k, m, s) (uninterpreted); '
               'SigningKey(seed).sign(m) returns s with valid(pub(seed), m, s); SigningKey(seed).verify_key = pub(seed)',
               'no signature-extension plugin is installed (C09 covers plugins)']
EXPLANATION = ('OP_CHECK_SIG(_VERIFY), OP_GET_MESSAGE, OP_SIGN, OP_SIGN_STACK and OP_CHECK_SIG_STACK run symbolically '
               'for all flag / allowed bytes, all presence subsets of sigfield1..8 with symbolic contents, symbolic key '
               'and signature; the triple handed to the Ed25519 oracle and the resulting stack are compared with a '
               'reference message builder written from the documentation')
MUST_REACH = ['checksig_true', 'checksig_false', 'checksig_disallowed', 'sign_then_check', 'get_message',
              'sign_stack', 'check_sig_stack_true', 'check_sig_stack_false', 'bad_length']

PROFILES = {'a': (1, 2, 1, 2, 1, 2, 1, 2), 'b': (0, 1, 3, 0, 2, 1, 0, 1), 'c': (4,) * 8, 'd': (8, 1, 5, 2, 7, 3, 6, 4)}


def _fields(c, profile, pres_hi):
    """sigfields: presence of fields 1..4 is fixed by the job parameter (4 bits), 5..8 symbolic (forks)"""
    lens = PROFILES[profile]
    cache = SDict()
    fields = {}
    present = []
    for i in range(8):
        if i < 4:
            p = bool((pres_hi >> i) & 1)
        else:
            p = bool(c.bool(f'present{i + 1}'))
        present.append(p)
        if p:
            v = c.bytes(f'sigfield{i + 1}', lens[i])
            fields[i] = v
            cache[f'sigfield{i + 1}'] = v
    c.input('present', [int(p) for p in present])
    del cache.wlog[:]
    return cache, fields, present


def ref_message(fields, flag):
    """reference (from docs/language_spec): concatenation in index order of the present fields whose bit
    is clear in the flag byte.  `flag` int | SymInt; forks on the symbolic bits."""
    out = b''
    for i in range(8):
        if i in fields:
            bit = (flag >> i) & 1 if isinstance(flag, int) else None
            if bit is None:
                from sx.core import bits_of
                b = bits_of(flag, 8)[i]
                excluded = bool(mk_bool(b))
            else:
                excluded = bool(bit)
            if not excluded:
                out = out + fields[i]
    return out


def _subset(flag, allowed):
    """flag & ~allowed == 0 as a non-forking condition"""
    from sx.core import bits_of
    fb = bits_of(flag, 8) if not isinstance(flag, int) else [z3.BoolVal(bool((flag >> i) & 1)) for i in range(8)]
    ab = bits_of(allowed, 8) if not isinstance(allowed, int) else [z3.BoolVal(bool((allowed >> i) & 1)) for i in range(8)]
    return mk_bool(z3.And(*[z3.Implies(f, a) for f, a in zip(fb, ab)]))


# ------------------------------------------------------------------------------ CHECK_SIG / CHECK_SIG_VERIFY
def h_checksig(c, pkg, profile, pres_hi, siglen, keylen, verify):
    F, C = pkg.functions, pkg.classes
    cache, fields, present = _fields(c, profile, pres_hi)
    allowed = c.byte('allowed')
    key = c.bytes('key', keylen)
    sig = c.bytes('sig', siglen)
    below = c.bytes('below', 2)
    tape = C.Tape(mk_bytes([allowed]), plugins=SDict({'signature_extensions': []}))
    stack = C.Stack()
    stack.put(below)
    stack.put(sig)
    stack.put(key)
    nwrites = len(cache.wlog)
    op = F.OP_CHECK_SIG_VERIFY if verify else F.OP_CHECK_SIG
    r = outcome_of(op, tape, stack, cache)
    flag = sig[64] if siglen == 65 else 0
    good_len = keylen == 32 and siglen in (64, 65)
    c.check('cache_not_written', len(cache.wlog) == nwrites)
    c.check('allowed_operand_consumed', tape.pointer == 1)
    if not good_len:
        c.check('bad_length_is_error', r[0] == 'raise' and exc_name(r[1]) == 'ValueError', got=repr(r))
        c.check('bad_length_never_verifies', len(stubs.CONFIG.verify_log) == 0)
        c.reach('bad_length')
        c.observe(raised=True)
        return
    sub = _subset(flag, allowed)
    if r[0] == 'raise' and exc_name(r[1]) == 'ScriptExecutionError' and 'disallowed sigflag' in str(r[1]):
        c.check('disallowed_error_only_if_flag_not_permitted', sym_not(sub))
        c.check('disallowed_never_verifies', len(stubs.CONFIG.verify_log) == 0)
        c.reach('checksig_disallowed')
        c.observe(raised=True)
        return
    # from here on the flag must be permitted
    c.check('permitted_flag_here', sub)
    c.check('exactly_one_verification', len(stubs.CONFIG.verify_log) == 1)
    if len(stubs.CONFIG.verify_log) != 1:
        return
    k, m, s = stubs.CONFIG.verify_log[0]
    want_m = ref_message(fields, flag)
    c.check('verified_key_is_supplied_key', bytes_eq(k, key))
    c.check('verified_signature_is_first_64_bytes', bytes_eq(s, sig[:64]))
    c.check('verified_message_is_flag_selected_fields', len(m) == len(want_m) and bytes_eq(m, want_m),
            got=m, want=want_m)
    valid = mk_bool(stubs.valid_term(key, want_m, sig[:64]))
    c.input('oracle_valid', valid)
    if verify:
        if r[0] == 'raise':
            c.check('verify_form_raises_only_when_invalid',
                    sym_and(exc_name(r[1]) == 'ScriptExecutionError', sym_not(valid)), got=repr(r))
            c.reach('checksig_false')
        else:
            c.check('verify_form_passes_only_when_valid', valid)
            c.reach('checksig_true')
        c.check('stack_below_untouched', len(stack) == 1 and bytes_eq(stack.peek(), below))
        c.observe(raised=r[0] == 'raise', message=m)
        return
    c.check('no_error', r[0] == 'ok', got=repr(r))
    if r[0] != 'ok':
        return
    c.check('stack_shape', len(stack) == 2 and bytes_eq(stack.peek(1), below))
    out = stack.peek()
    c.check('result_true_iff_valid', sym_or(sym_and(valid, out == b'\xff'), sym_and(sym_not(valid), out == b'\x00')))
    c.reach('checksig_true' if bool(out == b'\xff') else 'checksig_false')
    c.observe(raised=False, message=m, out=out)


# concrete side ---------------------------------------------------------------------------------
_SEED = bytes(range(32))


def _ref_message_c(fields, flag):
    return b''.join(fields[i] for i in range(8) if i in fields and not (flag >> i) & 1)


def _fields_c(inputs):
    present = inputs['present']
    return {i: inputs[f'sigfield{i + 1}'] for i in range(8) if present[i]}


def _real_checksig(fields, allowed, key, sig, verify, below=b'\x01\x02'):
    import tapescript
    from tapescript import functions as RF
    cache = {f'sigfield{i + 1}': v for i, v in fields.items()}
    tape = tapescript.Tape(bytes([allowed]), plugins={'signature_extensions': []})
    stack = tapescript.Stack()
    stack.put(below)
    stack.put(sig)
    stack.put(key)
    op = RF.OP_CHECK_SIG_VERIFY if verify else RF.OP_CHECK_SIG
    r = outcome_of(op, tape, stack, cache)
    return r, stack


def _oracle_checksig(fields, allowed, key, sig):
    """independent oracle with the real Ed25519 verifier: 'error' | True | False"""
    from nacl.signing import VerifyKey
    if len(key) != 32 or len(sig) not in (64, 65):
        return 'error'
    flag = sig[64] if len(sig) == 65 else 0
    if flag & ~allowed & 0xff:
        return 'error'
    try:
        VerifyKey(key).verify(_ref_message_c(fields, flag), sig[:64])
        return True
    except Exception:
        return False


def _observed(r, stack, verify):
    if r[0] == 'raise':
        if verify and 'OP_VERIFY' in str(r[1]):
            return False
        return 'error'
    if verify:
        return True
    top = stack.list()[-1]
    return True if top == b'\xff' else (False if top == b'\x00' else f'noncanonical:{top.hex()}')


def c_checksig(inputs, params):
    """witness: the real OP_CHECK_SIG(_VERIFY) with the Ed25519 verifier replaced by the oracle verdict of
    the model (validates the engine's view of the Python glue; real Ed25519 is used in r_checksig)"""
    import tapescript.functions as RF
    from nacl.exceptions import BadSignatureError
    fields = _fields_c(inputs)
    seen = []
    verdict = inputs.get('oracle_valid')

    class FakeVK:
        def __init__(self, k):
            self.k = k

        def verify(self, m, s):
            seen.append((self.k, m, s))
            if not verdict:
                raise BadSignatureError('oracle says invalid')
            return m
    old = RF.VerifyKey
    RF.VerifyKey = FakeVK
    try:
        r, stack = _real_checksig(fields, inputs['allowed'], inputs['key'], inputs['sig'], params['verify'],
                                  inputs['below'])
    finally:
        RF.VerifyKey = old
    out = {'raised': r[0] == 'raise'}
    if seen:
        out['message'] = seen[0][1]
    if r[0] == 'ok' and not params['verify']:
        out['out'] = stack.list()[-1]
    return out


def r_checksig(inputs, params, obligation):
    """realise the counterexample with real Ed25519: try the model's own key/signature and real
    signatures (fixed key pair) over every order-preserving sub-concatenation of the present fields"""
    from nacl.signing import SigningKey
    fields = _fields_c(inputs)
    allowed = inputs['allowed']
    verify = params['verify']
    sk = SigningKey(_SEED)
    pk = bytes(sk.verify_key)
    flagbyte = inputs['sig'][64:65]
    cands = [(inputs['key'], inputs['sig'])]
    idx = sorted(fields)
    msgs = set()
    for n in range(len(idx) + 1):
        for sub in itertools.combinations(idx, n):
            msgs.add(b''.join(fields[i] for i in sub))
    for perm in itertools.permutations(idx, min(len(idx), 2)):
        msgs.add(b''.join(fields[i] for i in perm))
    if len(inputs['key']) == 32 and len(inputs['sig']) in (64, 65):
        for m in sorted(msgs):
            cands.append((pk, sk.sign(m).signature + flagbyte))
    for key, sig in cands:
        r, stack = _real_checksig(fields, allowed, key, sig, verify, inputs['below'])
        got = _observed(r, stack, verify)
        want = _oracle_checksig(fields, allowed, key, sig)
        extra_stack = r[0] == 'ok' and len(stack.list()) != (1 if verify else 2)
        if got != want or extra_stack:
            return {'reproduced': True, 'key': key.hex(), 'sig': sig.hex(), 'allowed': allowed, 'got': repr(got),
                    'want': repr(want), 'fields': {str(i + 1): v.hex() for i, v in fields.items()}}
    return {'reproduced': False, 'tried': len(cands)}


# ------------------------------------------------------------------------------ GET_MESSAGE
def h_getmessage(c, pkg, profile, pres_hi):
    F, C = pkg.functions, pkg.classes
    cache, fields, present = _fields(c, profile, pres_hi)
    flag = c.byte('flag')
    tape = C.Tape(mk_bytes([flag]), plugins=SDict({'signature_extensions': []}))
    stack = C.Stack()
    r = outcome_of(F.OP_GET_MESSAGE, tape, stack, cache)
    c.check('no_error', r[0] == 'ok', got=repr(r))
    if r[0] != 'ok':
        return
    want = ref_message(fields, flag)
    c.check('one_item', len(stack) == 1)
    m = stack.peek()
    c.check('message_is_flag_selected_fields', len(m) == len(want) and bytes_eq(m, want), got=m, want=want)
    c.check('cache_not_written', len(cache.wlog) == 0)
    c.reach('get_message')
    c.observe(message=m)


def c_getmessage(inputs, params):
    import tapescript
    from tapescript import functions as RF
    fields = _fields_c(inputs)
    stack = tapescript.Stack()
    RF.OP_GET_MESSAGE(tapescript.Tape(bytes([inputs['flag']]), plugins={}), stack,
                      {f'sigfield{i + 1}': v for i, v in fields.items()})
    return {'message': stack.get()}


def r_getmessage(inputs, params, obligation):
    fields = _fields_c(inputs)
    got = c_getmessage(inputs, params)['message']
    want = _ref_message_c(fields, inputs['flag'])
    return {'reproduced': got != want, 'got': got.hex(), 'want': want.hex(), 'flag': inputs['flag']}


# ------------------------------------------------------------------------------ SIGN then CHECK_SIG
def h_sign_check(c, pkg, profile, pres_hi):
    F, C = pkg.functions, pkg.classes
    cache, fields, present = _fields(c, profile, pres_hi)
    flag = c.byte('flag')
    allowed = c.byte('allowed')
    seed = c.bytes('seed', 32)
    plugins = SDict({'signature_extensions': []})
    stack = C.Stack()
    stack.put(seed)
    flags = SDict({9: False})
    r = outcome_of(F.OP_SIGN, C.Tape(mk_bytes([flag]), plugins=plugins, flags=flags), stack, cache)
    c.check('sign_no_error', r[0] == 'ok', got=repr(r))
    if r[0] != 'ok':
        return
    c.check('sign_one_item', len(stack) == 1)
    sig = stack.peek()
    want_m = ref_message(fields, flag)
    c.check('one_signature_made', len(stubs.CONFIG.sign_log) == 1)
    sseed, sm, ssig = stubs.CONFIG.sign_log[0]
    c.check('signed_with_supplied_seed', bytes_eq(sseed, seed))
    c.check('signed_message_is_flag_selected_fields', len(sm) == len(want_m) and bytes_eq(sm, want_m))
    has_flag = bool(flag != 0)
    c.check('signature_length', len(sig) == (65 if has_flag else 64))
    c.check('signature_bytes', bytes_eq(sig[:64], ssig))
    if has_flag:
        c.check('flag_byte_appended', sig[64] == flag)
    c.check('sign_does_not_write_str_keys', all(k[1] != 'str' for k in cache.wlog))
    # now check it with the public key of the seed
    pub = stubs.pub_of_seed(seed)
    stack.put(pub)
    r2 = outcome_of(F.OP_CHECK_SIG, C.Tape(mk_bytes([allowed]), plugins=plugins), stack, cache)
    sub = _subset(flag, allowed)
    if r2[0] == 'raise':
        c.check('check_errors_only_for_non_permitted_flag',
                sym_and(exc_name(r2[1]) == 'ScriptExecutionError', sym_not(sub)), got=repr(r2))
        c.reach('sign_check_disallowed')
        c.observe(ok=False)
        return
    c.check('permitted_here', sub)
    c.check('sign_then_check_succeeds', len(stack) == 1 and stack.peek() == b'\xff')
    c.reach('sign_then_check')
    c.observe(ok=True)


def c_sign_check(inputs, params):
    import tapescript
    from tapescript import functions as RF
    from nacl.signing import SigningKey
    fields = _fields_c(inputs)
    cache = {f'sigfield{i + 1}': v for i, v in fields.items()}
    stack = tapescript.Stack()
    stack.put(inputs['seed'])
    RF.OP_SIGN(tapescript.Tape(bytes([inputs['flag']]), plugins={}, flags={9: False}), stack, cache)
    stack.put(bytes(SigningKey(inputs['seed']).verify_key))
    r = outcome_of(RF.OP_CHECK_SIG, tapescript.Tape(bytes([inputs['allowed']]), plugins={}), stack, cache)
    return {'ok': r[0] == 'ok'}, r, stack, cache


def c_sign_check_obs(inputs, params):
    return c_sign_check(inputs, params)[0]


def r_sign_check(inputs, params, obligation):
    from nacl.signing import SigningKey, VerifyKey
    fields = _fields_c(inputs)
    flag, allowed = inputs['flag'], inputs['allowed']
    obs, r, stack, cache = c_sign_check(inputs, params)
    permitted = not (flag & ~allowed & 0xff)
    SIGN_SIDE = ('sign_no_error', 'sign_one_item', 'one_signature_made', 'signed_with_supplied_seed', 'signed_message_is_flag_selected_fields',
                 'signature_length', 'signature_bytes', 'flag_byte_appended', 'sign_does_not_write_str_keys')
    if obligation in SIGN_SIDE:
        # the SIGN half alone, whatever the checker would allow: a signature of the right shape over the reference message
        import tapescript
        from tapescript import functions as RF
        st = tapescript.Stack()
        st.put(inputs['seed'])
        rs = outcome_of(RF.OP_SIGN, tapescript.Tape(bytes([flag]), plugins={}, flags={9: False}), st, dict(cache))
        if rs[0] != 'ok' or len(st) != 1:
            return {'reproduced': True, 'sign': repr(rs)[:160], 'flag': flag}
        sig = st.get()
        try:
            VerifyKey(bytes(SigningKey(inputs['seed']).verify_key)).verify(_ref_message_c(fields, flag), sig[:64])
            okm = True
        except Exception:
            okm = False
        shape = len(sig) == (65 if flag else 64) and (not flag or sig[64] == flag)
        return {'reproduced': not (okm and shape), 'sig': sig.hex(), 'flag': flag, 'valid_over_reference_message': okm}
    if not permitted:
        return {'reproduced': r[0] != 'raise', 'r': repr(r)}
    if r[0] != 'ok' or stack.list() != [b'\xff']:
        return {'reproduced': True, 'r': repr(r), 'stack': [x.hex() for x in stack.list()], 'flag': flag,
                'allowed': allowed}
    # the signature itself must be over the reference message
    import tapescript
    from tapescript import functions as RF
    st = tapescript.Stack()
    st.put(inputs['seed'])
    RF.OP_SIGN(tapescript.Tape(bytes([flag]), plugins={}, flags={9: False}), st, dict(cache))
    sig = st.get()
    try:
        VerifyKey(bytes(SigningKey(inputs['seed']).verify_key)).verify(_ref_message_c(fields, flag), sig[:64])
        okm = True
    except Exception:
        okm = False
    shape = len(sig) == (65 if flag else 64) and (not flag or sig[64] == flag)
    return {'reproduced': not (okm and shape), 'sig': sig.hex(), 'flag': flag}


# ------------------------------------------------------------------------------ SIGN_STACK / CHECK_SIG_STACK
def h_sign_stack(c, pkg, mlen, seedlen):
    F, C = pkg.functions, pkg.classes
    seed = c.bytes('seed', seedlen)
    msg = c.bytes('msg', mlen)
    cache = SDict({'sigfield1': b'zz'})
    stack = C.Stack()
    stack.put(msg)
    stack.put(seed)
    r = outcome_of(F.OP_SIGN_STACK, C.Tape(b'', flags=SDict({9: False})), stack, cache)
    if seedlen != 32:
        c.check('bad_seed_is_error', r[0] == 'raise' and exc_name(r[1]) == 'ValueError', got=repr(r))
        c.check('nothing_signed', len(stubs.CONFIG.sign_log) == 0)
        c.reach('sign_stack_bad')
        return
    c.check('no_error', r[0] == 'ok', got=repr(r))
    if r[0] != 'ok':
        return
    c.check('one_item', len(stack) == 1)
    c.check('one_signature_made', len(stubs.CONFIG.sign_log) == 1)
    sseed, sm, ssig = stubs.CONFIG.sign_log[0]
    c.check('signed_with_supplied_seed', bytes_eq(sseed, seed))
    c.check('signed_the_stack_message', len(sm) == mlen and bytes_eq(sm, msg))
    c.check('result_is_the_signature', len(stack.peek()) == 64 and bytes_eq(stack.peek(), ssig))
    c.check('cache_not_written', len(cache.wlog) == 0)
    # CHECK_SIG_STACK on the result with the matching public key
    sig = stack.get()
    stack.put(sig)
    stack.put(msg)
    stack.put(stubs.pub_of_seed(seed))
    r2 = outcome_of(F.OP_CHECK_SIG_STACK, C.Tape(b''), stack, cache)
    c.check('sign_stack_then_check_sig_stack', r2[0] == 'ok' and len(stack) == 1 and stack.peek() == b'\xff')
    c.reach('sign_stack')


def h_check_sig_stack(c, pkg, mlen, keylen, siglen):
    F, C = pkg.functions, pkg.classes
    key = c.bytes('key', keylen)
    msg = c.bytes('msg', mlen)
    sig = c.bytes('sig', siglen)
    cache = SDict({'sigfield1': b'zz'})
    stack = C.Stack()
    stack.put(sig)
    stack.put(msg)
    stack.put(key)
    r = outcome_of(F.OP_CHECK_SIG_STACK, C.Tape(b''), stack, cache)
    if keylen != 32 or siglen != 64:
        c.check('bad_length_is_error', r[0] == 'raise' and exc_name(r[1]) == 'ValueError', got=repr(r))
        c.check('bad_length_never_verifies', len(stubs.CONFIG.verify_log) == 0)
        c.reach('css_bad_length')
        return
    c.check('no_error', r[0] == 'ok', got=repr(r))
    if r[0] != 'ok':
        return
    c.check('exactly_one_verification', len(stubs.CONFIG.verify_log) == 1)
    k, m, s = stubs.CONFIG.verify_log[0]
    c.check('triple_exact', sym_and(bytes_eq(k, key), len(m) == mlen and bytes_eq(m, msg), bytes_eq(s, sig)))
    valid = mk_bool(stubs.valid_term(key, msg, sig))
    out = stack.peek()
    c.check('one_item', len(stack) == 1)
    c.check('result_true_iff_valid', sym_or(sym_and(valid, out == b'\xff'), sym_and(sym_not(valid), out == b'\x00')))
    c.check('cache_not_written', len(cache.wlog) == 0)
    c.reach('check_sig_stack_true' if bool(out == b'\xff') else 'check_sig_stack_false')


def r_stack_ops(inputs, params, obligation):
    """real Ed25519: SIGN_STACK output verifies under the seed's key over the message; CHECK_SIG_STACK agrees
    with the real verifier for a real signature, a corrupted one and the model's bytes"""
    import tapescript
    from tapescript import functions as RF
    from nacl.signing import SigningKey, VerifyKey
    msg = inputs['msg']
    res = {}
    if 'seed' in inputs and len(inputs['seed']) == 32:
        st = tapescript.Stack()
        st.put(msg)
        st.put(inputs['seed'])
        r = outcome_of(RF.OP_SIGN_STACK, tapescript.Tape(b'', flags={9: False}), st, {})
        if r[0] != 'ok':
            return {'reproduced': True, 'r': repr(r)}
        sig = st.get()
        try:
            VerifyKey(bytes(SigningKey(inputs['seed']).verify_key)).verify(msg, sig)
        except Exception as ex:        # noqa
            return {'reproduced': True, 'why': 'SIGN_STACK output does not verify', 'sig': sig.hex()}
        cands = [(bytes(SigningKey(inputs['seed']).verify_key), sig)]
    else:
        sk = SigningKey(_SEED)
        sig = sk.sign(msg).signature
        cands = [(bytes(sk.verify_key), sig), (inputs.get('key', b''), inputs.get('sig', b''))]
    bad = bytes([cands[0][1][0] ^ 1]) + cands[0][1][1:]
    cands.append((cands[0][0], bad))
    for key, sg in cands:
        st = tapescript.Stack()
        st.put(sg)
        st.put(msg)
        st.put(key)
        r = outcome_of(RF.OP_CHECK_SIG_STACK, tapescript.Tape(b''), st, {})
        if len(key) != 32 or len(sg) != 64:
            want = 'error'
        else:
            try:
                VerifyKey(key).verify(msg, sg)
                want = True
            except Exception:
                want = False
        got = 'error' if r[0] == 'raise' else (st.list() == [b'\xff'])
        if r[0] == 'ok' and st.list() not in ([b'\xff'], [b'\x00']):
            got = 'noncanonical'
        if got != want:
            return {'reproduced': True, 'key': key.hex(), 'sig': sg.hex(), 'got': repr(got), 'want': repr(want)}
    return {'reproduced': False}


# ------------------------------------------------------------------------------ parameters
def _profiles(tier):
    return ['a', 'b'] if tier == 'quick' else ['a', 'b', 'c', 'd']


def _p_checksig(tier):
    out = []
    if tier == 'quick':
        combos = [('a', ph, 65, False) for ph in range(16)]
        combos += [('a', ph, 64, False) for ph in (0, 6, 15)]
        combos += [('a', ph, 65, True) for ph in (9, 15)] + [('a', 5, 64, True)]
        combos += [('b', ph, 65, False) for ph in (5, 15)]
    else:
        combos = [(prof, ph, sl, v) for prof in ('a', 'b', 'c', 'd') for ph in range(16) for sl in (64, 65)
                  for v in (False, True)]
    for prof, ph, sl, v in combos:
        out.append({'profile': prof, 'pres_hi': ph, 'siglen': sl, 'keylen': 32, 'verify': v})
    for keylen, siglen in ((31, 64), (33, 65), (32, 63), (32, 66), (32, 0), (0, 64)):
        for verify in (False, True):
            out.append({'profile': 'a', 'pres_hi': 5, 'siglen': siglen, 'keylen': keylen, 'verify': verify})
    return out


def _p_fields(tier):
    if tier == 'quick':
        return [{'profile': 'a', 'pres_hi': ph} for ph in range(16)] + [{'profile': 'b', 'pres_hi': ph} for ph in (10, 15)]
    return [{'profile': prof, 'pres_hi': ph} for prof in ('a', 'b', 'c', 'd') for ph in range(16)]


def _p_signcheck(tier):
    if tier == 'quick':
        return [{'profile': 'a', 'pres_hi': ph} for ph in (0, 6, 9)] + [{'profile': 'b', 'pres_hi': 5}]
    return [{'profile': prof, 'pres_hi': ph} for prof in ('a', 'b', 'c', 'd') for ph in range(16)]


def _p_sign_stack(tier):
    ms = [0, 1, 5] if tier == 'quick' else [0, 1, 2, 5, 16, 33]
    return [{'mlen': m, 'seedlen': 32} for m in ms] + [{'mlen': 3, 'seedlen': s} for s in (0, 31, 33, 64)]


def _p_css(tier):
    ms = [0, 1, 5] if tier == 'quick' else [0, 1, 2, 5, 16, 33]
    return [{'mlen': m, 'keylen': 32, 'siglen': 64} for m in ms] + \
           [{'mlen': 2, 'keylen': k, 'siglen': s} for k, s in ((31, 64), (33, 64), (32, 63), (32, 65), (0, 64), (32, 0))]


HARNESSES = [
    HarnessSpec('check_sig', h_checksig, _p_checksig, replay=r_checksig, concrete=c_checksig, witness_every=11),
    HarnessSpec('get_message', h_getmessage, _p_fields, replay=r_getmessage, concrete=c_getmessage, witness_every=5),
    HarnessSpec('sign_then_check', h_sign_check, _p_signcheck, replay=r_sign_check, concrete=c_sign_check_obs,
                witness_every=11),
    HarnessSpec('sign_stack', h_sign_stack, _p_sign_stack, replay=r_stack_ops),
    HarnessSpec('check_sig_stack', h_check_sig_stack, _p_css, replay=r_stack_ops),
]
