"""C13 — signature and commitment lock builders: exactly the intended holder can unlock."""
from __future__ import annotations
import z3
from sx.harness import HarnessSpec
from sx.core import SymInt, SymBool, mk_bool, zi, to_z3bool, sym_and, sym_or, sym_not, eng
from sx.values import SymBytes, mk_bytes, items_of, bytes_eq
from sx.containers import SDict
from sx import stubs
from . import vmstep
from .common import outcome_of, exc_name, pinned_clock
from .c02 import ref_message, _subset, _ref_message_c

FUNCTIONS = ['tools:make_single_sig_lock', 'tools:make_single_sig_lock2', 'tools:make_single_sig_witness',
             'tools:make_single_sig_witness2', 'tools:make_multisig_lock', 'tools:make_scripthash_lock',
             'tools:make_scripthash_witness', 'tools:make_graftroot_lock', 'tools:make_graftroot_witness_keyspend',
             'tools:make_graftroot_witness_surrogate', 'tools:_pubkey', 'tools:_prvkey', 'tools:Script.from_src',
             'tools:Script.__add__', 'parsing:compile_script', 'parsing:parse_comptime', 'functions:run_auth_scripts',
             'functions:run_script', 'functions:run_tape', 'functions:OP_CHECK_SIG', 'functions:OP_CHECK_SIG_STACK',
             'functions:OP_SIGN', 'functions:OP_SIGN_STACK', 'functions:OP_EVAL', 'functions:OP_IF_ELSE', 'functions:OP_SHAKE256',
             'functions:OP_EQUAL_VERIFY', 'functions:OP_SWAP', 'functions:OP_DUP', 'functions:OP_WRITE_CACHE', 'functions:OP_READ_CACHE',
             'functions:OP_DERIVE_SCALAR', 'functions:OP_DERIVE_POINT']
BOUNDS = {'quick': {'sigfields': 'sigfield1 (2 bytes), sigfield2 (1 byte), sigfield3 (3 bytes) symbolic; every subset present',
                    'flags': 'sign flag in {00, 01, 02, 05, ff-excluded}, allowed operand in {00, 01, 03, 07, ff}; all pairs',
                    'scripts': 'committed / surrogate scripts: symbolic bytes of length 1..3 (evaluation summarised) and 3 concrete scripts (really evaluated)',
                    'arbitrary_witness_states': 'stacks of 0..3 items with lengths from {0,1,32,64,65,66,L_script}, symbolic content'},
          'thorough': {'sigfields': 'as quick plus sigfield8', 'flags': 'all 8 single-bit flags and 6 mixed values x 6 allowed operands',
                       'scripts': 'lengths 1..6', 'arbitrary_witness_states': 'stacks of 0..4 items'}}
OUTSIDE = ['Ed25519 / SHAKE themselves (oracle and uninterpreted-function stubs)', 'graftap and taproot builders (checked under C05)',
           'multisig lock execution (checked under C03; only the builder template is covered there)']
ASSUMPTIONS = ['signature oracle (valid / sign / pub); pub(seed) is identified with derive_point(derive_scalar(seed)) by using the oracle key for both',
               'hash stubs: equal inputs give equal digests; "a different script" clauses additionally assume collision freedom',
               'by C01 a witness script influences the lock only through the stack / byte-keyed cache it leaves, so exactness is checked from '
               'an arbitrary witness-produced state']
EXPLANATION = ('(ii) completeness: each builder witness + its sibling lock, with symbolic seed / sigfields / scripts, through the real '
               'compiler and run_auth_scripts -> True for every permitted flag, False for a non-permitted one; (iii) exactness: each lock run '
               'from an arbitrary witness state, verdict compared with a reference predicate over the oracle (single sig both layouts, script '
               'hash, graftroot both paths), evaluated scripts are logged by a selective run_tape summary')
MUST_REACH = ['complete_true', 'complete_disallowed', 'exact_true', 'exact_false', 'evaluated', 'multisig_true', 'multisig_false', 'multisig_builder']

FIELD_LENS = {0: 2, 1: 1, 2: 3, 7: 1}


def _sigfields(c, present_mask, idxs=(0, 1, 2)):
    fields, d = {}, SDict()
    for k, i in enumerate(idxs):
        if (present_mask >> k) & 1:
            fields[i] = c.bytes(f'sigfield{i + 1}', FIELD_LENS[i])
            d[f'sigfield{i + 1}'] = fields[i]
    d.wlog = []
    return fields, d


def _pub_for(seed):
    """the oracle public key of a seed; derive_point(derive_scalar(seed)) must be the same key, so the group
    stubs are bypassed for these two instructions in oracle mode (see install_key_oracle)"""
    return stubs.pub_of_seed(seed)


class KeyOracle:
    """in oracle mode OP_DERIVE_SCALAR / OP_DERIVE_POINT applied to a seed yield the oracle public key"""

    def __init__(self, pkg):
        self.pkg = pkg

    def __enter__(self):
        F = self.pkg.functions
        self.old = (F.derive_key_from_seed, F.derive_point_from_scalar)
        seeds = {}

        def derive_key_from_seed(seed):
            sc = stubs.uf_bytes('scalar_of_seed', 32, zi(stubs.byte_int(seed)))
            seeds[id(sc)] = (sc, seed)
            return sc

        def derive_point_from_scalar(scalar):
            hit = seeds.get(id(scalar))
            if hit is not None:
                return stubs.pub_of_seed(hit[1])
            return stubs.uf_bytes('point_of_scalar', 32, zi(stubs.byte_int(scalar)))
        F.derive_key_from_seed = derive_key_from_seed
        F.derive_point_from_scalar = derive_point_from_scalar
        self.pkg.tools.derive_key_from_seed = derive_key_from_seed
        self.pkg.tools.derive_point_from_scalar = derive_point_from_scalar
        return self

    def __exit__(self, *a):
        F = self.pkg.functions
        F.derive_key_from_seed, F.derive_point_from_scalar = self.old
        self.pkg.tools.derive_key_from_seed, self.pkg.tools.derive_point_from_scalar = self.old
        return False


class Selective:
    """run_tape wrapper: nested runs whose tape data is one of the watched objects (the script handed to EVAL)
    are logged and summarised (symbolic verdict), every other run is the real interpreter"""

    def __init__(self, pkg, c, watch):
        self.pkg, self.c, self.watch = pkg, c, list(watch)
        self.evaluated = []

    def __enter__(self):
        F = self.pkg.functions
        self.real = F.run_tape
        me = self

        def run_tape(tape, stack, cache, additional_flags=None):
            for w in me.watch:
                if tape.data is w:
                    k = len(me.evaluated)
                    me.evaluated.append(w)
                    if additional_flags is not None:
                        F.set_tape_flags(tape, additional_flags)
                    if bool(me.c.bool(f'eval{k}.raises')):
                        raise me.pkg.errors.ScriptExecutionError('evaluated script failed')
                    if bool(me.c.bool(f'eval{k}.leaves_true')):
                        stack.put(b'\xff')
                    elif bool(me.c.bool(f'eval{k}.leaves_false')):
                        stack.put(b'\x00')
                    tape.pointer = len(tape.data)
                    return
            if additional_flags is None:
                return me.real(tape, stack, cache)
            return me.real(tape, stack, cache, additional_flags)
        F.run_tape = run_tape
        return self

    def __exit__(self, *a):
        self.pkg.functions.run_tape = self.real
        return False


def _run_lock_from_state(pkg, lock_bytes, items, cache):
    """channel composition: fresh Tape(lock) run by run_tape on a stack holding `items`; verdict as run_auth_scripts"""
    F, C = pkg.functions, pkg.classes
    from sx import core as _core
    _core.ABSTRACT['xor_uf'] = True          # OP_EQUAL's constant-time compare: xor as UF with the zero / cancellation lemmas
    stack = C.Stack()
    for it in items:
        stack.deque.items.append(it)
    tape = C.Tape(lock_bytes, plugins=SDict({'signature_extensions': [], 'check_template': []}))
    r = outcome_of(F.run_tape, tape, stack, cache)
    if r[0] == 'raise':
        return False, r, stack
    its = vmstep.stack_items(stack)
    ok = len(its) == 1 and (its[0] == b'\xff')
    return ok, r, stack


# ------------------------------------------------------------------------------ (ii) completeness
def h_complete(c, pkg, kind, mask, flag, allowed, slen=2):
    T, F = pkg.tools, pkg.functions
    stubs.CONFIG.collision_free = False
    fields, sf = _sigfields(c, mask)
    seed = c.bytes('seed', 32)
    pub = _pub_for(seed)
    fl, al = '%02x' % flag, '%02x' % allowed
    with KeyOracle(pkg):
        if kind == 'single':
            lock = T.make_single_sig_lock(pub, al)
            wit = T.make_single_sig_witness(seed, sf, fl)
        elif kind == 'single2':
            lock = T.make_single_sig_lock2(pub, al)
            wit = T.make_single_sig_witness2(seed, sf, fl)
        elif kind == 'graftroot_key':
            lock = T.make_graftroot_lock(pub, al)
            wit = T.make_graftroot_witness_keyspend(seed, sf, fl)
        elif kind == 'graftroot_surrogate':
            lock = T.make_graftroot_lock(pub, al)
            script = T.Script.from_src('true') if slen == 0 else T.Script('', c.bytes('script', slen) if slen < 256 else b'\x01' * slen)
            wit = T.make_graftroot_witness_surrogate(seed, script)
        elif kind == 'scripthash':
            # (long scripts: concrete content - the evaluation is summarised, only the length matters)
            script = T.Script('', c.bytes('script', slen) if slen < 256 else b'\x01' * slen)
            lock = T.make_scripthash_lock(script)
            wit = T.make_scripthash_witness(script)
        else:
            raise ValueError(kind)
        watch = [script.bytes] if kind in ('graftroot_surrogate', 'scripthash') and slen else []
        # the witness pushes a *copy* of the script bytes (compiled from hex), so watch by content: the
        # evaluated object is whatever reaches OP_EVAL; compare content in the summary
        sel = SelectiveByLen(pkg, c, len(script.bytes)) if watch else None
        if sel:
            with sel:
                r = outcome_of(F.run_auth_scripts, [wit, lock], sf)
        else:
            r = outcome_of(F.run_auth_scripts, [wit, lock], sf)
    c.check('never_raises', r[0] == 'ok', got=repr(r)[:200])
    if r[0] != 'ok':
        return
    verdict = r[1]
    if kind in ('single', 'single2', 'graftroot_key'):
        permitted = (flag & ~allowed & 0xff) == 0
        c.check('builder_witness_unlocks_iff_flag_permitted', verdict == permitted, kind=kind, flag=flag, allowed=allowed)
        c.reach('complete_true' if permitted else 'complete_disallowed')
    else:
        c.check('committed_script_was_evaluated_exactly_once', len(sel.evaluated) == 1 and
                bytes_eq(sel.evaluated[0], script.bytes), n=len(sel.evaluated))
        if len(sel.evaluated) == 1:
            c.reach('evaluated')
            want = sel.outcome == 'true'
            c.check('verdict_is_the_script_verdict', verdict == want, outcome=sel.outcome)
            c.reach('complete_true' if want else 'complete_script_false')
    c.observe(verdict=verdict)


class SelectiveByLen(Selective):
    """watches the run whose tape data has the script's length and is not the lock / witness itself
    (callstack_count > 0 marks an EVAL sub-tape)"""

    def __init__(self, pkg, c, n):
        super().__init__(pkg, c, [])
        self.n = n
        self.outcome = None

    def __enter__(self):
        F = self.pkg.functions
        self.real = F.run_tape
        me = self

        def run_tape(tape, stack, cache, additional_flags=None):
            if tape.callstack_count > 0 and len(tape.data) == me.n and not me.evaluated:
                me.evaluated.append(tape.data)
                if additional_flags is not None:
                    F.set_tape_flags(tape, additional_flags)
                if bool(me.c.bool('eval.raises')):
                    me.outcome = 'raise'
                    raise me.pkg.errors.ScriptExecutionError('evaluated script failed')
                if bool(me.c.bool('eval.leaves_true')):
                    me.outcome = 'true'
                    stack.put(b'\xff')
                else:
                    me.outcome = 'false'
                    stack.put(b'\x00')
                tape.pointer = len(tape.data)
                return
            if additional_flags is None:
                return me.real(tape, stack, cache)
            return me.real(tape, stack, cache, additional_flags)
        F.run_tape = run_tape
        return self


def _real_complete(inputs, params):
    import tapescript
    import tapescript.tools as RT
    from nacl.signing import SigningKey
    kind, flag, allowed = params['kind'], params['flag'], params['allowed']
    seed = inputs['seed']
    pub = bytes(SigningKey(seed).verify_key)
    sf = {k: v for k, v in inputs.items() if k.startswith('sigfield')}
    fl, al = '%02x' % flag, '%02x' % allowed
    script = None

    def true_script():
        """a script that leaves true; of exactly params['slen'] bytes when the job is about a long script"""
        n = params.get('slen', 1)
        if n < 256:
            return RT.Script.from_src('true')
        code = b'\x01' + (b'\x02\x00\x06' if (n - 1) % 2 else b'')
        code += b'\x01\x06' * ((n - len(code)) // 2)
        return RT.Script('', code)
    if kind == 'single':
        lock, wit = RT.make_single_sig_lock(pub, al), RT.make_single_sig_witness(seed, sf, fl)
    elif kind == 'single2':
        lock, wit = RT.make_single_sig_lock2(pub, al), RT.make_single_sig_witness2(seed, sf, fl)
    elif kind == 'graftroot_key':
        lock, wit = RT.make_graftroot_lock(pub, al), RT.make_graftroot_witness_keyspend(seed, sf, fl)
    elif kind == 'graftroot_surrogate':
        script = true_script()
        lock, wit = RT.make_graftroot_lock(pub, al), RT.make_graftroot_witness_surrogate(seed, script)
    else:
        script = true_script()
        lock, wit = RT.make_scripthash_lock(script), RT.make_scripthash_witness(script)
    return tapescript.run_auth_scripts([wit, lock], sf), lock, wit


def r_complete(inputs, params, obligation):
    got, lock, wit = _real_complete(inputs, params)
    kind = params['kind']
    if kind in ('single', 'single2', 'graftroot_key'):
        want = (params['flag'] & ~params['allowed'] & 0xff) == 0
    else:
        want = True          # realised with the concrete script `true`
    return {'reproduced': got != want, 'got': got, 'want': want, 'lock': lock.bytes.hex()[:160], 'witness': wit.bytes.hex()[:200]}


# ------------------------------------------------------------------------------ (iii) exactness
def h_exact_single(c, pkg, layout, shape, allowed, mask):
    """single-signature locks from an arbitrary witness state"""
    T = pkg.tools
    stubs.CONFIG.collision_free = True
    fields, sf = _sigfields(c, mask)
    K = c.bytes('K', 32)
    al = '%02x' % allowed
    lock = T.make_single_sig_lock(K, al) if layout == 1 else T.make_single_sig_lock2(K, al)
    items = [c.bytes(f's{i}', n) for i, n in enumerate(shape)]
    ok, r, stack = _run_lock_from_state(pkg, lock.bytes, items, sf)
    # reference predicate
    if layout == 1:
        good_shape = len(shape) == 1 and shape[0] in (64, 65)
        sig = items[0] if good_shape else None
        key_ok = True
        key = K
    else:
        good_shape = len(shape) == 2 and shape[0] in (64, 65) and shape[1] == 32
        sig = items[0] if good_shape else None
        key = items[1] if good_shape else None
        key_ok = bytes_eq(key, K) if good_shape else False     # shake256(key) == shake256(K) under collision freedom
    if not good_shape:
        c.check('malformed_witness_state_rejected', ok is False, shape=shape)
        c.reach('exact_false')
        return
    flag = sig[64] if len(sig) == 65 else 0
    msg = ref_message(fields, flag)
    want = sym_and(key_ok, _subset(flag, allowed), mk_bool(stubs.valid_term(key, msg, sig[:64])))
    c.check('verdict_equals_reference_predicate', ok == want, layout=layout)
    t = ok is True or (ok is not False and bool(ok))
    c.reach('exact_true' if t else 'exact_false')


def h_exact_scripthash(c, pkg, shape, slen):
    T = pkg.tools
    stubs.CONFIG.collision_free = True
    S = c.bytes('S', slen)
    lock = T.make_scripthash_lock(T.Script('', S))
    items = [c.bytes(f's{i}', n) for i, n in enumerate(shape)]
    sel = SelectiveByLenAny(pkg, c)
    with sel:
        ok, r, stack = _run_lock_from_state(pkg, lock.bytes, items, SDict())
    if not shape:
        c.check('empty_witness_rejected', ok is False)
        return
    top = items[-1]
    same = bytes_eq(top, S) if len(top) == slen else False
    if sel.evaluated:
        c.reach('evaluated')
        c.check('only_the_committed_script_is_evaluated', sym_and(len(sel.evaluated) == 1, same), supplied=top, committed=S)
        c.check('evaluated_bytes_are_the_supplied_item', sel.evaluated[0] is top)
    else:
        c.check('no_instruction_of_a_non_committed_script_runs', True)
        c.check('rejected_without_evaluation_only_if_hash_differs', sym_or(sym_not(same), len(top) == 0), supplied=top)
        c.check('rejected', ok is False)
    t = ok is True or (ok is not False and bool(ok))
    c.reach('exact_true' if t else 'exact_false')


class SelectiveByLenAny(SelectiveByLen):
    """every EVAL sub-tape (callstack_count > 0) is logged and summarised"""

    def __init__(self, pkg, c, only=None):
        super().__init__(pkg, c, -1)
        self.only = only          # if given: only sub-tapes whose data is one of these objects (witness items) are EVAL targets

    def __enter__(self):
        F = self.pkg.functions
        self.real = F.run_tape
        me = self

        def run_tape(tape, stack, cache, additional_flags=None):
            if tape.callstack_count > 0 and (me.only is None or any(tape.data is o for o in me.only)):
                k = len(me.evaluated)
                me.evaluated.append(tape.data)
                if additional_flags is not None:
                    F.set_tape_flags(tape, additional_flags)
                if bool(me.c.bool(f'eval{k}.raises')):
                    raise me.pkg.errors.ScriptExecutionError('evaluated script failed')
                stack.put(b'\xff' if bool(me.c.bool(f'eval{k}.leaves_true')) else b'\x00')
                tape.pointer = len(tape.data)
                return
            if additional_flags is None:
                return me.real(tape, stack, cache)
            return me.real(tape, stack, cache, additional_flags)
        F.run_tape = run_tape
        return self


def h_exact_graftroot(c, pkg, shape, allowed, mask):
    """graftroot lock from an arbitrary witness state: top item selects the path"""
    T = pkg.tools
    stubs.CONFIG.collision_free = False
    fields, sf = _sigfields(c, mask)
    K = c.bytes('K', 32)
    lock = T.make_graftroot_lock(K, '%02x' % allowed)
    items = [c.bytes(f's{i}', n) for i, n in enumerate(shape)]
    sel = SelectiveByLenAny(pkg, c)
    with sel:
        ok, r, stack = _run_lock_from_state(pkg, lock.bytes, items, sf)
    if not shape:
        c.check('empty_witness_rejected', ok is False)
        return
    selector = items[-1]
    sel_true = mk_bool(z3.Or(*[zi(x) != 0 for x in items_of(selector)])) if len(selector) else False
    if sel.evaluated:
        c.reach('evaluated')
        # surrogate path: stack must have been [..., sig(64), script, true]
        good = len(shape) >= 3 and shape[-3] == 64
        c.check('surrogate_evaluated_only_in_surrogate_shape', good and sel_true is not False, shape=shape)
        if good:
            sig, script = items[-3], items[-2]
            c.check('evaluated_script_is_the_supplied_surrogate', sel.evaluated[0] is script and len(sel.evaluated) == 1)
            c.check('surrogate_runs_only_if_signed_by_the_lock_key', sym_and(sel_true, mk_bool(stubs.valid_term(K, script, sig))))
    else:
        if ok is not False:
            # key path accepted: [sig, false-ish selector]
            good = len(shape) == 2 and shape[0] in (64, 65)
            c.check('key_path_accept_only_in_key_shape', good, shape=shape)
            if good:
                sig = items[0]
                flag = sig[64] if len(sig) == 65 else 0
                msg = ref_message(fields, flag)
                c.check('key_path_accepts_exactly_valid_signatures',
                        ok == sym_and(sym_not(sel_true), _subset(flag, allowed), mk_bool(stubs.valid_term(K, msg, sig[:64]))))
    t = ok is True or (ok is not False and bool(ok))
    c.reach('exact_true' if t else 'exact_false')


def r_exact(inputs, params, obligation):
    """realise with real Ed25519 / SHAKE: the lock for a real key, witness states from the model where the oracle
    said invalid and real signatures where it said valid"""
    import tapescript
    import tapescript.tools as RT
    from nacl.signing import SigningKey, VerifyKey
    sk = SigningKey(bytes(range(32)))
    K = bytes(sk.verify_key)
    sf = {k: v for k, v in inputs.items() if k.startswith('sigfield')}
    fields = {int(k[8:]) - 1: v for k, v in sf.items()}
    shape = params.get('shape', [])
    items = [inputs.get(f's{i}', b'') for i in range(len(shape))]
    results = []
    harness = params.get('_harness')
    al = '%02x' % params.get('allowed', 0)
    cands = []
    if 'layout' in params:
        lock = RT.make_single_sig_lock(K, al) if params['layout'] == 1 else RT.make_single_sig_lock2(K, al)
        for flagged in (False, True):
            for signer_ok in (True, False):
                if not items:
                    continue
                fb = items[0][64:65] if flagged and len(items[0]) == 65 else b''
                flag = fb[0] if fb else 0
                s = (sk if signer_ok else SigningKey(bytes(32))).sign(_ref_message_c(fields, flag)).signature + fb
                its = [s] + ([K] if params['layout'] == 2 else [])
                cands.append(its)
        cands.append(items)

        def oracle(its):
            if params['layout'] == 1:
                if len(its) != 1 or len(its[0]) not in (64, 65):
                    return False
                key, sig = K, its[0]
            else:
                if len(its) != 2 or len(its[0]) not in (64, 65) or len(its[1]) != 32 or its[1] != K:
                    return False
                key, sig = its[1], its[0]
            flag = sig[64] if len(sig) == 65 else 0
            if flag & ~params['allowed'] & 0xff:
                return False
            try:
                VerifyKey(key).verify(_ref_message_c(fields, flag), sig[:64])
                return True
            except Exception:
                return False
        for its in cands:
            wit = b''.join(RT.Script.from_src(f'push x{it.hex()}').bytes if it else b'' for it in its)
            got = tapescript.run_auth_scripts([wit, lock] if wit else [lock], sf)
            want = oracle(its)
            if got != want:
                return {'reproduced': True, 'items': [x.hex() for x in its], 'got': got, 'want': want, 'lock': lock.bytes.hex()}
        return {'reproduced': False, 'tried': len(cands)}
    if 'slen' in params:
        # script-hash lock: the committed script S and the supplied items from the model, real SHAKE; evaluated
        # sub-tapes are logged (not executed) on the real package
        S = inputs['S']
        lock = RT.make_scripthash_lock(RT.Script('', S))
        ok, evaluated = _real_lock_from_state(lock.bytes, items, {}, inputs)
        bad = any(e != S for e in evaluated) or (not evaluated and items and items[-1] == S)
        return {'reproduced': bool(bad), 'committed': S.hex(), 'evaluated': [e.hex() for e in evaluated],
                'items': [x.hex() for x in items], 'verdict': ok}
    # graftroot lock
    for realised in (False, True):
        Kk = K if realised else inputs['K']
        its = list(items)
        if realised and len(its) >= 3 and len(its[-3]) == 64:
            its[-3] = sk.sign(its[-2]).signature
        if realised and len(its) == 2 and len(its[0]) in (64, 65):
            fb = its[0][64:65]
            its[0] = sk.sign(_ref_message_c(fields, fb[0] if fb else 0)).signature + fb
        lock = RT.make_graftroot_lock(Kk, al)
        ok, evaluated = _real_lock_from_state(lock.bytes, its, sf, inputs)
        sel_true = bool(its) and any(its[-1])
        want_eval = []
        want_ok = None
        if len(its) >= 3 and sel_true and len(its[-3]) == 64:
            try:
                VerifyKey(Kk).verify(its[-2], its[-3])
                want_eval = [its[-2]] if its[-2] else []
            except Exception:
                want_eval = []
        elif len(its) == 2 and not sel_true and len(its[0]) in (64, 65):
            flag = its[0][64] if len(its[0]) == 65 else 0
            try:
                VerifyKey(Kk).verify(_ref_message_c(fields, flag), its[0][:64])
                want_ok = not (flag & ~params['allowed'] & 0xff)
            except Exception:
                want_ok = False
        if evaluated != want_eval or (want_ok is not None and ok != want_ok) or (want_ok is None and not want_eval and ok):
            return {'reproduced': True, 'realised': realised, 'items': [x.hex() for x in its], 'evaluated': [e.hex() for e in evaluated],
                    'want_evaluated': [e.hex() for e in want_eval], 'verdict': ok, 'want_verdict': want_ok}
    return {'reproduced': False}


def _real_lock_from_state(lock_bytes, items, cache_vals, inputs):
    """the real package: fresh Tape(lock) on a stack holding `items`; EVAL sub-tapes (callstack_count > 0) are logged and
    replaced by the verdict the counterexample assigns (eval<k>.raises / eval<k>.leaves_true)"""
    import tapescript
    import tapescript.functions as RF
    real = RF.run_tape
    evaluated = []

    def run_tape(tape, stack, cache, additional_flags={}):
        if tape.callstack_count > 0:
            k = len(evaluated)
            evaluated.append(tape.data)
            if inputs.get(f'eval{k}.raises', inputs.get('eval.raises', False)):
                raise RF.ScriptExecutionError('evaluated script failed') if hasattr(RF, 'ScriptExecutionError') else \
                    tapescript.ScriptExecutionError('evaluated script failed')
            stack.put(b'\xff' if inputs.get(f'eval{k}.leaves_true', inputs.get('eval.leaves_true', True)) else b'\x00')
            tape.pointer = len(tape.data)
            return
        return real(tape, stack, cache, additional_flags)
    RF.run_tape = run_tape
    try:
        stack = tapescript.Stack()
        for it in items:
            stack.deque.append(it)
        tape = tapescript.Tape(lock_bytes, plugins={'signature_extensions': []})
        r = outcome_of(real, tape, stack, dict(cache_vals))
    finally:
        RF.run_tape = real
    ok = r[0] == 'ok' and stack.list() == [b'\xff']
    return ok, evaluated


# ------------------------------------------------------------------------------ parameters
def _flags(tier):
    if tier == 'quick':
        return [(0, 0), (1, 1), (1, 0), (2, 3), (5, 7), (5, 3), (0, 255)]
    fl = [0, 1, 2, 4, 8, 16, 32, 64, 128, 5, 0x81, 0x7e]
    al = [0, 1, 3, 7, 0x81, 255]
    return [(f, a) for f in fl for a in al]


def _p_complete(tier):
    out = []
    masks = (0b111, 0b101, 0b000) if tier == 'quick' else range(8)
    for kind in ('single', 'single2', 'graftroot_key'):
        for m in masks:
            for f, a in _flags(tier):
                out.append({'kind': kind, 'mask': m, 'flag': f, 'allowed': a})
    for kind in ('graftroot_surrogate', 'scripthash'):
        # 1024 = the default max item size: the longest script that fits on the stack must still be evaluated
        for sl in ((1, 3, 1024) if tier == 'quick' else (1, 2, 3, 6, 255, 256, 1023, 1024)):
            out.append({'kind': kind, 'mask': 0b001, 'flag': 0, 'allowed': 0, 'slen': sl})
    return out


SHAPES1 = [[], [64], [65], [63], [66], [1], [1, 64], [64, 64]]
SHAPES2 = [[], [64], [64, 32], [65, 32], [64, 31], [63, 32], [32, 64], [1, 64, 32]]
SHAPES_G = [[], [1], [64, 1], [65, 1], [63, 1], [64, 2, 1], [64, 3, 1], [63, 2, 1], [1, 64, 2, 1], [64, 64, 1]]


def _p_exact_single(tier):
    out = []
    for layout, shapes in ((1, SHAPES1), (2, SHAPES2)):
        for sh in shapes:
            for al in ((0, 3, 255) if tier == 'quick' else (0, 1, 3, 0x81, 255)):
                out.append({'layout': layout, 'shape': sh, 'allowed': al, 'mask': 0b011})
    # the flagged shapes against every single permission bit and mixed masks (the flag byte is symbolic): a flag is accepted
    # only under its own bit
    for layout, sh in ((1, [65]), (2, [65, 32])):
        for al in ((0x04, 0x08, 0x10, 0x20, 0x40, 0x80, 0x5a) if tier == 'quick' else
                   (0x02, 0x04, 0x08, 0x10, 0x20, 0x40, 0x80, 0x5a, 0xa5, 0x7f, 0xfe, 0x1f, 0xe0)):
            out.append({'layout': layout, 'shape': sh, 'allowed': al, 'mask': 0b011})
    return out


def _p_exact_sh(tier):
    sl = (1, 3) if tier == 'quick' else (1, 2, 3, 6)
    return [{'shape': sh, 'slen': s} for s in sl for sh in ([], [s], [s + 1], [1, s], [s, s], [0])]


def _p_exact_g(tier):
    return [{'shape': sh, 'allowed': al, 'mask': 0b011} for sh in SHAPES_G for al in ((0, 3) if tier == 'quick' else (0, 1, 3, 255))]


def _sig(v):
    p = v['params']
    return {'harness': v['harness'], 'obligation': v['obligation'], 'kind': p.get('kind'), 'layout': p.get('layout')}


# ------------------------------------------------------------------------------ m-of-n multisignature lock
def h_multisig_lock(c, pkg, n, m, allowed=3):
    """make_multisig_lock over symbolic keys from an arbitrary witness state of m signature items (flag byte symbolic, whole
    validity matrix left to the solver): unlocks iff every flag is permitted and the signatures can be assigned to m different
    keys - one holder signing twice (with different flags / encodings), outsiders and repeats are models"""
    import itertools
    from . import c03
    T = pkg.tools
    cache, fields, keys, sigs = c03._setup(c, pkg, n, m, True, 'q')
    lock = T.make_multisig_lock(keys, m, '%02x' % allowed)
    ok, r, stack = _run_lock_from_state(pkg, lock.bytes, sigs, cache)
    V = c03._matrix(c, fields, keys, sigs, True)
    for i in range(m):
        for j1, j2 in itertools.combinations(range(n), 2):
            c.assume(mk_bool(z3.Not(z3.And(V[i][j1], V[i][j2]))))
    c.input('V', [[mk_bool(x) for x in row] for row in V])
    permitted = sym_and(*[_subset(s_[64], allowed) for s_ in sigs])
    inj = [z3.And(*[V[i][p[i]] for i in range(m)]) for p in itertools.permutations(range(n), m)]
    matching = mk_bool(z3.Or(*inj))
    c.check('multisig_lock_opens_iff_m_different_holders_signed', ok == sym_and(permitted, matching), n=n, m=m)
    c.reach('multisig_true' if ok is True or (ok is not False and bool(ok)) else 'multisig_false')


def r_multisig_lock(inputs, params, obligation):
    """realise the model: real keys, real signatures according to the validity matrix V, real lock and interpreter"""
    import tapescript
    from . import c03
    fields, keys, sigs = c03._realise(inputs, dict(params, flags=True, fset='q'))
    allowed = params.get('allowed', 3)
    lock = tapescript.make_multisig_lock(keys, params['m'], '%02x' % allowed)
    want = c03._oracle(fields, keys, sigs, allowed)
    st = tapescript.Stack()
    for s_ in sigs:
        st.put(s_)
    cache = {f'sigfield{i + 1}': v for i, v in fields.items()}
    r = outcome_of(tapescript.run_tape, tapescript.Tape(lock.bytes), st, cache)
    got = r[0] == 'ok' and st.list() == [b'\xff']
    return {'reproduced': got != (want is True), 'got': got, 'want': repr(want), 'outcome': repr(r)[:120]}


def h_multisig_builder(c, pkg, n, signers, flags):
    """the witnesses of the listed holders (make_single_sig_witness, concatenated) against make_multisig_lock of all n keys"""
    T, F = pkg.tools, pkg.functions
    stubs.CONFIG.collision_free = False
    fields, sf = _sigfields(c, 0b011)
    seeds = [c.bytes(f'seed{j}', 32) for j in range(n)]
    for i in range(n):
        for j in range(i):
            c.assume(sym_not(bytes_eq(seeds[i], seeds[j])))
    pubs = [_pub_for(sd) for sd in seeds]
    for i in range(n):
        for j in range(i):
            c.assume(sym_not(bytes_eq(pubs[i], pubs[j])))
    allowed = 3
    with KeyOracle(pkg):
        lock = T.make_multisig_lock(pubs, len(signers), '%02x' % allowed)
        wit = None
        from .c04 import _pushes
        for j, fl in zip(signers, flags):
            w = T.make_single_sig_witness(seeds[j], sf, '%02x' % fl)
            wit = w if wit is None else wit + w
            # a signature verifies under its signer's key only (unforgeability: no second key validates it)
            sig = mk_bytes(next(_pushes(pkg, w.bytes)))
            msg = ref_message(fields, fl)
            for k2 in range(n):
                if k2 != j:
                    c.assume(mk_bool(z3.Not(stubs.valid_term(pubs[k2], msg, sig[:64]))))
        r = outcome_of(F.run_auth_scripts, [wit, lock], sf)
    c.check('never_raises', r[0] == 'ok', got=repr(r)[:200])
    if r[0] != 'ok':
        return
    distinct = len(set(signers)) == len(signers)
    permitted = all((fl & ~allowed & 0xff) == 0 for fl in flags)
    c.check('quorum_of_different_holders_unlocks_and_repeats_do_not', r[1] == (distinct and permitted), signers=signers, flags=flags)
    c.reach('multisig_builder')


def r_multisig_builder(inputs, params, obligation):
    import tapescript
    import tapescript.tools as RT
    from nacl.signing import SigningKey
    n, signers, flags = params['n'], params['signers'], params['flags']
    seeds = [inputs.get(f'seed{j}', bytes([j + 1]) * 32) for j in range(n)]
    pubs = [bytes(SigningKey(sd).verify_key) for sd in seeds]
    sf = {k: v for k, v in inputs.items() if k.startswith('sigfield')}
    lock = RT.make_multisig_lock(pubs, len(signers), '03')
    wit = None
    for j, fl in zip(signers, flags):
        w = RT.make_single_sig_witness(seeds[j], sf, '%02x' % fl)
        wit = w if wit is None else wit + w
    got = tapescript.run_auth_scripts([wit, lock], sf)
    want = len(set(signers)) == len(signers) and all((fl & ~3 & 0xff) == 0 for fl in flags)
    return {'reproduced': got != want, 'got': got, 'want': want}


def _p_ms_lock(tier):
    out = [{'n': 1, 'm': 1}, {'n': 2, 'm': 1}, {'n': 2, 'm': 2}, {'n': 3, 'm': 2}]
    if tier != 'quick':
        out += [{'n': 3, 'm': 3}, {'n': 3, 'm': 1}, {'n': 2, 'm': 2, 'allowed': 0}, {'n': 3, 'm': 2, 'allowed': 0xff}]
    return out


def _p_ms_builder(tier):
    out = [{'n': 2, 'signers': [0, 1], 'flags': [0, 0]}, {'n': 2, 'signers': [1, 0], 'flags': [1, 2]},
           {'n': 2, 'signers': [0, 0], 'flags': [0, 1]}, {'n': 3, 'signers': [2, 0], 'flags': [0, 3]},
           {'n': 3, 'signers': [1, 1], 'flags': [2, 1]}, {'n': 2, 'signers': [0, 1], 'flags': [0, 4]}]
    if tier != 'quick':
        out += [{'n': 3, 'signers': [0, 1, 2], 'flags': [0, 1, 2]}, {'n': 3, 'signers': [0, 2, 0], 'flags': [0, 1, 2]},
                {'n': 3, 'signers': [2, 1], 'flags': [3, 3]}]
    return out


def h_graftap_key(c, pkg, flag, allowed):
    """graftap key path (the lock and witness builders of the graftap family; the arithmetic is C05's)"""
    from .c05 import h_graftap
    return h_graftap(c, pkg, flag, allowed)


def r_graftap_key(inputs, params, obligation):
    from .c05 import r_graftap
    return r_graftap(inputs, params, obligation)


HARNESSES = [
    HarnessSpec('complete', h_complete, _p_complete, witness_replay=True, replay=r_complete, signature=_sig),
    HarnessSpec('exact_single', h_exact_single, _p_exact_single, replay=r_exact, signature=_sig),
    HarnessSpec('exact_scripthash', h_exact_scripthash, _p_exact_sh, replay=r_exact, signature=_sig),
    HarnessSpec('exact_graftroot', h_exact_graftroot, _p_exact_g, replay=r_exact, signature=_sig),
    HarnessSpec('graftap_key', h_graftap_key, lambda t: [{'flag': f, 'allowed': a} for f, a in ((0, 0), (1, 3), (0x80, 0x80), (0xc1, 0xff)) +
                                                         (((4, 3), (0x40, 0x40)) if t != 'quick' else ())],
                replay=r_graftap_key, signature=_sig, fallback=lambda params, rng: {'seed': rng.randbytes(32), 'm': rng.randbytes(2)}),
    HarnessSpec('multisig_lock', h_multisig_lock, _p_ms_lock, witness_replay=True, witness_every=25, replay=r_multisig_lock, signature=_sig),
    HarnessSpec('multisig_builder', h_multisig_builder, _p_ms_builder, witness_replay=True, replay=r_multisig_builder, signature=_sig),
]
