"""C16 — time constraints accept exactly their documented window."""
from __future__ import annotations
import z3
from sx.harness import HarnessSpec
from sx.core import SymInt, SymBool, mk_bool, zi, to_z3bool, sym_and, sym_or, sym_not
from sx.values import from_bytes_model
from sx.containers import SDict
from sx import stubs
from .common import pinned_clock, outcome_of, exc_name

FUNCTIONS = ['functions:OP_CHECK_TIMESTAMP', 'functions:OP_CHECK_TIMESTAMP_VERIFY', 'functions:OP_CHECK_EPOCH',
             'functions:OP_CHECK_EPOCH_VERIFY', 'functions:OP_VERIFY', 'functions:OP_NOT', 'functions:not_bytes',
             'functions:bytes_to_bool', 'functions:run_auth_scripts', 'functions:run_script', 'functions:run_tape',
             'functions:set_tape_flags', 'functions:int_to_bytes', 'tools:make_timestamp_after_lock',
             'tools:make_timestamp_before_lock', 'tools:make_timestamp_between_lock', 'tools:Script.from_src',
             'parsing:compile_script', 'parsing:get_symbols', 'parsing:assemble', 'parsing:parse_next',
             'parsing:_get_OP_PUSH_args', 'classes:Stack.put', 'classes:Stack.get', 'classes:Tape.read']
BOUNDS = {'quick': {'constraint_bytes': '1..9', 't_now_threshold': 'unbounded integers',
                    'lock_timestamp_bytes': '<= 6 (ts < 2^40)'},
          'thorough': {'constraint_bytes': '1..24', 't_now_threshold': 'unbounded integers',
                       'lock_timestamp_bytes': '<= 10 (ts < 2^72)'}}
OUTSIDE = ['constraints longer than the stated number of bytes', 'negative lock timestamps (the builders take Unix times)',
           'float clock granularity: time() is modelled as an integer-valued clock (the code truncates with int())']
ASSUMPTIONS = ['time() returns an arbitrary non-negative value (symbolic `now`); int(time()) == now',
               'between lock: interpreted as after(begin) AND before(end), i.e. the slack clause of the after part applies',
               'lock builders: the decimal rendering of a symbolic timestamp is a placeholder token; the compiler '
               'is executed on it and every path is validated by a concrete witness replay']
EXPLANATION = ('OP_CHECK_TIMESTAMP/OP_CHECK_EPOCH and their _VERIFY forms run on symbolic unbounded t, now, threshold '
               'and symbolic constraint bytes; the three lock builders are executed (f-string -> compiler -> bytecode) '
               'with a symbolic timestamp and the result is run through run_auth_scripts; verdicts are compared '
               'with the documented predicates by unsat queries')
MUST_REACH = ['ts_true', 'ts_false', 'epoch_true', 'epoch_false', 'lock_after', 'lock_before', 'lock_between']


def _pred_ts(t, now, c, thr):
    return z3.And(t >= c, z3.Or(thr <= 0, t - now < thr))


# ------------------------------------------------------------------------------ OP_CHECK_TIMESTAMP
def h_ts(c, pkg, k, verify):
    F = pkg.functions
    t = c.int('t')
    thr = c.int('thr')
    cb = c.bytes('c', k)
    cache = SDict({'timestamp': t})
    tape = pkg.classes.Tape(b'', flags=SDict({'ts_threshold': thr}))
    stack = pkg.classes.Stack()
    stack.put(cb)
    op = F.OP_CHECK_TIMESTAMP_VERIFY if verify else F.OP_CHECK_TIMESTAMP
    r = outcome_of(op, tape, stack, cache)
    now = stubs.stub_time()
    cv = zi(from_bytes_model(cb, 'big'))
    want = _pred_ts(zi(t), zi(now), cv, zi(thr))
    if r[0] == 'raise':
        if verify and exc_name(r[1]) == 'ScriptExecutionError' and 'OP_VERIFY' in str(r[1]):
            c.check('verify_raises_exactly_when_false', mk_bool(z3.Not(want)))
            c.check('verify_consumed_result', len(stack) == 0)
            c.reach('ts_false')
        else:
            c.check('no_other_error', False, raised=repr(r[1]))
        c.observe(raised=True)
        return
    if verify:
        c.check('verify_passes_exactly_when_true', mk_bool(want))
        c.check('verify_leaves_nothing', len(stack) == 0)
        c.reach('ts_true')
        c.observe(raised=False)
        return
    c.check('one_result', len(stack) == 1)
    out = stack.get()
    is_true = out == b'\xff'
    is_false = out == b'\x00'
    c.check('result_is_canonical_bool', sym_or(is_true, is_false))
    c.check('true_exactly_in_window', is_true == mk_bool(want))
    c.reach('ts_true' if (is_true is True or (is_true is not False and bool(is_true))) else 'ts_false')
    c.observe(raised=False, out=out)


def _real_ts(inputs, params):
    import tapescript
    from tapescript import functions as RF
    tape = tapescript.Tape(b'', flags={'ts_threshold': inputs['thr']})
    stack = tapescript.Stack()
    stack.put(inputs['c'])
    op = RF.OP_CHECK_TIMESTAMP_VERIFY if params['verify'] else RF.OP_CHECK_TIMESTAMP
    with pinned_clock(inputs.get('now', 0)):
        r = outcome_of(op, tape, stack, {'timestamp': inputs['t']})
    return r, stack


def c_ts(inputs, params):
    r, stack = _real_ts(inputs, params)
    if r[0] == 'raise':
        return {'raised': True}
    if params['verify']:
        return {'raised': False}
    return {'raised': False, 'out': stack.get()}


def r_ts(inputs, params, obligation):
    r, stack = _real_ts(inputs, params)
    t, now, thr = inputs['t'], inputs.get('now', 0), inputs['thr']
    cv = int.from_bytes(inputs['c'], 'big')
    want = t >= cv and (thr <= 0 or t - now < thr)
    if params['verify']:
        got = r[0] == 'ok'
    else:
        got = r[0] == 'ok' and stack.list() == [b'\xff']
        if r[0] == 'ok' and stack.list() not in ([b'\xff'], [b'\x00']):
            return {'reproduced': True, 'stack': [x.hex() for x in stack.list()]}
    if r[0] == 'raise' and not (params['verify'] and 'OP_VERIFY' in str(r[1])):
        return {'reproduced': True, 'raised': repr(r[1])}
    return {'reproduced': got != want, 'want': want, 'got': got, 't': t, 'now': now, 'thr': thr, 'c': cv}


def h_ts_errors(c, pkg):
    """error clauses (concrete shapes, symbolic contents where there is content)"""
    F = pkg.functions
    C = pkg.classes
    SEE = pkg.errors.ScriptExecutionError
    t = c.int('t')
    thr = c.int('thr')
    cb = c.bytes('c', 2)
    cases = {
        'empty_constraint': (b'', {'timestamp': t}, {'ts_threshold': thr}),
        'missing_timestamp': (cb, {}, {'ts_threshold': thr}),
        'bytes_timestamp': (cb, {'timestamp': b'\x01'}, {'ts_threshold': thr}),
        'str_timestamp': (cb, {'timestamp': '12'}, {'ts_threshold': thr}),
        'float_timestamp': (cb, {'timestamp': 1.5}, {'ts_threshold': thr}),
        'bool_timestamp': (cb, {'timestamp': True}, {'ts_threshold': thr}),
        'missing_flag': (cb, {'timestamp': t}, {}),
        'str_flag': (cb, {'timestamp': t}, {'ts_threshold': '60'}),
        'float_flag': (cb, {'timestamp': t}, {'ts_threshold': 60.0}),
    }
    for name, (con, cache, flags) in cases.items():
        for op in (F.OP_CHECK_TIMESTAMP, F.OP_CHECK_TIMESTAMP_VERIFY):
            stack = C.Stack()
            stack.put(con)
            r = outcome_of(op, C.Tape(b'', flags=SDict(flags)), stack, SDict(cache))
            c.check(f'error_{name}', r[0] == 'raise' and isinstance(r[1], SEE), got=repr(r))
    # empty stack: interpreter-level IndexError is what run_auth_scripts maps to False; never true
    r = outcome_of(F.OP_CHECK_TIMESTAMP, C.Tape(b'', flags=SDict({'ts_threshold': thr})), C.Stack(),
                   SDict({'timestamp': t}))
    c.check('error_empty_stack', r[0] == 'raise')
    c.reach('ts_errors')


# ------------------------------------------------------------------------------ OP_CHECK_EPOCH
def h_epoch(c, pkg, k, verify):
    F = pkg.functions
    thr = c.int('thr')
    cb = c.bytes('c', k)
    tape = pkg.classes.Tape(b'', flags=SDict({'epoch_threshold': thr}))
    stack = pkg.classes.Stack()
    stack.put(cb)
    op = F.OP_CHECK_EPOCH_VERIFY if verify else F.OP_CHECK_EPOCH
    r = outcome_of(op, tape, stack, SDict())
    now = stubs.stub_time()
    cv = zi(from_bytes_model(cb, 'big'))
    want = cv - zi(now) < zi(thr)
    if r[0] == 'raise':
        e = r[1]
        if exc_name(e) == 'ScriptExecutionError' and 'malformed epoch_threshold' in str(e):
            c.check('negative_threshold_is_an_error', thr < 0)
            c.reach('epoch_neg_thr')
        elif verify and exc_name(e) == 'ScriptExecutionError' and 'OP_VERIFY' in str(e):
            c.check('threshold_nonneg_here', thr >= 0)
            c.check('verify_raises_exactly_when_false', mk_bool(z3.Not(want)))
            c.reach('epoch_false')
        else:
            c.check('no_other_error', False, raised=repr(e))
        c.observe(raised=True)
        return
    c.check('threshold_nonneg_here', thr >= 0)
    if verify:
        c.check('verify_passes_exactly_when_true', mk_bool(want))
        c.check('verify_leaves_nothing', len(stack) == 0)
        c.reach('epoch_true')
        c.observe(raised=False)
        return
    c.check('one_result', len(stack) == 1)
    out = stack.get()
    is_true = out == b'\xff'
    c.check('result_is_canonical_bool', sym_or(is_true, out == b'\x00'))
    c.check('true_exactly_in_window', is_true == mk_bool(want))
    c.reach('epoch_true' if (is_true is True or (is_true is not False and bool(is_true))) else 'epoch_false')
    c.observe(raised=False, out=out)


def _real_epoch(inputs, params):
    import tapescript
    from tapescript import functions as RF
    tape = tapescript.Tape(b'', flags={'epoch_threshold': inputs['thr']})
    stack = tapescript.Stack()
    stack.put(inputs['c'])
    op = RF.OP_CHECK_EPOCH_VERIFY if params['verify'] else RF.OP_CHECK_EPOCH
    with pinned_clock(inputs.get('now', 0)):
        r = outcome_of(op, tape, stack, {})
    return r, stack


def c_epoch(inputs, params):
    r, stack = _real_epoch(inputs, params)
    if r[0] == 'raise':
        return {'raised': True}
    return {'raised': False} if params['verify'] else {'raised': False, 'out': stack.get()}


def r_epoch(inputs, params, obligation):
    r, stack = _real_epoch(inputs, params)
    now, thr = inputs.get('now', 0), inputs['thr']
    cv = int.from_bytes(inputs['c'], 'big')
    if thr < 0:
        return {'reproduced': not (r[0] == 'raise' and 'malformed' in str(r[1])), 'r': repr(r)}
    want = cv - now < thr
    got = (r[0] == 'ok') if params['verify'] else (r[0] == 'ok' and stack.list() == [b'\xff'])
    return {'reproduced': got != want, 'want': want, 'got': got, 'now': now, 'thr': thr, 'c': cv, 'r': repr(r)}


# ------------------------------------------------------------------------------ lock builders
SLACK = 60     # default ts_threshold of the package (read from the module at run time below)


def _verdict(pkg, scripts, t):
    return pkg.functions.run_auth_scripts(scripts, {'timestamp': t})


def h_lock(c, pkg, kind, verify, maxbits):
    T = pkg.tools
    stubs.CONFIG.log2_max_bits = maxbits + 8
    thr = pkg.functions.flags['ts_threshold']
    t = c.int('t')
    c.assume(t >= 0)
    now = stubs.stub_time()
    slack_ok = mk_bool(z3.Or(thr <= 0, zi(t) - zi(now) < thr))
    ok = T.Script.from_src('true')
    if kind == 'between':
        b = c.int('begin')
        e = c.int('end')
        c.assume(sym_and(b >= 0, b < 2 ** maxbits, e >= 0, e < 2 ** maxbits))
        lock = T.make_timestamp_between_lock(b, e, verify)
        want = sym_and(t >= b, t < e, slack_ok)
        want_in_slack = want
    else:
        ts = c.int('ts')
        c.assume(sym_and(ts >= 0, ts < 2 ** maxbits))
        if kind == 'after':
            lock = T.make_timestamp_after_lock(ts, verify)
            want = sym_and(t >= ts, slack_ok)
        else:
            lock = T.make_timestamp_before_lock(ts, verify)
            want = t < ts
    scripts = [ok, lock] if verify else [lock]
    got = _verdict(pkg, scripts, t)
    c.reach('lock_' + kind)
    if kind == 'before':
        # the property: exactly t < ts.  Split so that the known defect (F5) is one named obligation.
        c.check('before_exact_within_slack', sym_or(sym_not(slack_ok), got == want))
        c.check('before_exact_beyond_slack', sym_or(slack_ok, got == want))
    else:
        c.check(kind + '_verdict_exact', got == want)
    c.observe(verdict=got, lock=lock.bytes)


def _real_lock(inputs, params):
    import tapescript
    from tapescript import tools as RT
    kind, verify = params['kind'], params['verify']
    with pinned_clock(inputs.get('now', 0)):
        ok = RT.Script.from_src('true')
        if kind == 'between':
            lock = RT.make_timestamp_between_lock(inputs['begin'], inputs['end'], verify)
        elif kind == 'after':
            lock = RT.make_timestamp_after_lock(inputs['ts'], verify)
        else:
            lock = RT.make_timestamp_before_lock(inputs['ts'], verify)
        scripts = [ok, lock] if verify else [lock]
        got = tapescript.run_auth_scripts(scripts, {'timestamp': inputs['t']})
    return got, lock


def c_lock(inputs, params):
    got, lock = _real_lock(inputs, params)
    return {'verdict': got, 'lock': lock.bytes}


def r_lock(inputs, params, obligation):
    import tapescript.functions as RF
    got, lock = _real_lock(inputs, params)
    t, now = inputs['t'], inputs.get('now', 0)
    thr = RF.flags['ts_threshold']
    slack = thr <= 0 or t - now < thr
    kind = params['kind']
    if kind == 'between':
        want = inputs['begin'] <= t < inputs['end'] and slack
    elif kind == 'after':
        want = t >= inputs['ts'] and slack
    else:
        want = t < inputs['ts']
        if obligation == 'before_exact_within_slack' and not slack:
            return {'reproduced': False}
        if obligation == 'before_exact_beyond_slack' and slack:
            return {'reproduced': False}
    return {'reproduced': got != want, 'got': got, 'want': want, 'lock': lock.bytes.hex(),
            **{k: v for k, v in inputs.items()}}


def _sig_lock(v):
    return {'harness': v['harness'], 'obligation': v['obligation']}


def _p_ts(tier):
    ks = range(1, 10) if tier == 'quick' else range(1, 25)
    return [{'k': k, 'verify': v} for k in ks for v in (False, True)]


def _p_lock(tier):
    mb = 40 if tier == 'quick' else 72
    return [{'kind': k, 'verify': v, 'maxbits': mb} for k in ('after', 'before', 'between') for v in (False, True)]


HARNESSES = [
    HarnessSpec('check_timestamp', h_ts, _p_ts, replay=r_ts, concrete=c_ts),
    HarnessSpec('check_timestamp_errors', h_ts_errors),
    HarnessSpec('check_epoch', h_epoch, _p_ts, replay=r_epoch, concrete=c_epoch),
    HarnessSpec('lock', h_lock, _p_lock, replay=r_lock, concrete=c_lock, signature=_sig_lock),
]
