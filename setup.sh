#!/bin/sh
# Build the verification environment offline: overlay venv on /venv with z3 (+cvc5, crosshair) from the wheelhouse.
set -e
cd "$(dirname "$0")"
if [ ! -x .venv/bin/python ] || ! .venv/bin/python -c 'import z3, nacl' 2>/dev/null; then
  rm -rf .venv
  /venv/bin/python -m venv .venv
  SP=$(.venv/bin/python -c 'import site; print(site.getsitepackages()[0])')
  printf '%s\n' "import site; site.addsitedir('/venv/lib/python3.12/site-packages')" > "$SP/_verif_overlay.pth"
  PIP_NO_INDEX=1 .venv/bin/pip install -q --no-index --find-links /opt/veriftools/wheels z3-solver cvc5 jsonschema >/dev/null
fi
.venv/bin/python -c 'import z3, nacl, tapescript; print("setup ok: z3", z3.get_version_string())'
